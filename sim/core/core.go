// Package core defines the run specification (= replay file), the run result and the violation record
// shared by all bsim scenarios.
package core

import (
	"encoding/json"
	"fmt"
	"sort"
	"strings"

	"bsim/sched"
)

// Spec is everything that determines one simulated run. A replay file is a Spec with Tape filled in.
type Spec struct {
	Property string          `json:"property"`
	Scenario string          `json:"scenario"`
	Seed     uint64          `json:"seed"`
	Tier     string          `json:"tier,omitempty"`
	Config   json.RawMessage `json:"config,omitempty"`   // scenario specific; generated from Seed when absent
	Workload json.RawMessage `json:"workload,omitempty"` // scenario specific; generated from Seed when absent
	Tape     []uint32        `json:"tape,omitempty"`     // consumed scheduling tape; when present the run replays it
	Replay   bool            `json:"replay,omitempty"`   // Tape is authoritative (padded with zeros)
	TreeHash string          `json:"tree_hash,omitempty"`
	Expect   *Violation      `json:"expect,omitempty"` // the violation this replay file reproduces
}

// Violation is one oracle clause that fired.
type Violation struct {
	Property string            `json:"property"`
	Clause   string            `json:"clause"`
	Sig      map[string]string `json:"sig,omitempty"` // clause-specific signature matched against known_findings.jsonl
	Detail   string            `json:"detail"`
	Step     int               `json:"step"`
}

func (v Violation) Key() string {
	var ks []string
	for k := range v.Sig {
		ks = append(ks, k)
	}
	sort.Strings(ks)
	var b strings.Builder
	fmt.Fprintf(&b, "%s|%s", v.Property, v.Clause)
	for _, k := range ks {
		fmt.Fprintf(&b, "|%s=%s", k, v.Sig[k])
	}
	return b.String()
}

// Result of one run.
type Result struct {
	Spec        Spec           `json:"spec"`
	Violations  []Violation    `json:"violations,omitempty"`
	Harness     string         `json:"harness_error,omitempty"` // trouble of the machinery itself: exit 2, never a verdict
	Steps       int            `json:"steps"`
	SimTimeMS   int64          `json:"sim_time_ms"`
	Fingerprint string         `json:"fingerprint"`
	Faults      map[string]int `json:"faults,omitempty"` // fault kind -> times actually fired
	Probes      map[string]int `json:"probes,omitempty"` // "rare condition reached" counters
	Points      map[string]int `json:"points,omitempty"` // crash point / label -> images or visits
	Completed   bool           `json:"completed"`        // the workload ran to its end
	NonTrivial  bool           `json:"nontrivial"`       // by the scenario's stated rule
	Checks      int            `json:"checks"`           // oracle evaluations performed
	LogHead     []string       `json:"log_head,omitempty"`
	Log         []string       `json:"log,omitempty"`
	WallMS      int64          `json:"wall_ms"`
	Summary     string         `json:"summary,omitempty"`
}

// Ctx is handed to a scenario.
type Ctx struct {
	Spec  *Spec
	Gen   *sched.Rand // workload / config generation (only used when Spec.Config/Workload are absent)
	Tape  *sched.Tape
	Dir   string // private scratch directory on tmpfs
	Res   *Result
	Quick bool
	Sched *sched.Sched // set by the scenario once created (used by the runner for diagnostics)
	// TolerateLeak: goroutines left blocked when the bubble ends are expected (a background loop died after an
	// injected I/O fault and its clients wait forever) and are not a harness error.
	TolerateLeak bool
	// After holds work to be done once the bubble has ended (real clock, real goroutines): e.g. linearizability
	// checking, whose time-out must not run on the simulated clock.
	After []func()
}

func (c *Ctx) Violate(clause string, sig map[string]string, step int, format string, a ...any) {
	c.Res.Violations = append(c.Res.Violations, Violation{Property: c.Spec.Property, Clause: clause, Sig: sig, Detail: fmt.Sprintf(format, a...), Step: step})
}

// ViolateProp records a violation against another property than the run's own (e.g. C12 from a C03 run).
func (c *Ctx) ViolateProp(prop, clause string, sig map[string]string, step int, format string, a ...any) {
	c.Res.Violations = append(c.Res.Violations, Violation{Property: prop, Clause: clause, Sig: sig, Detail: fmt.Sprintf(format, a...), Step: step})
}

func (c *Ctx) Fault(kind string) {
	if c.Res.Faults == nil {
		c.Res.Faults = map[string]int{}
	}
	c.Res.Faults[kind]++
}

func (c *Ctx) Probe(name string) {
	if c.Res.Probes == nil {
		c.Res.Probes = map[string]int{}
	}
	c.Res.Probes[name]++
}

func (c *Ctx) Point(name string) {
	if c.Res.Points == nil {
		c.Res.Points = map[string]int{}
	}
	c.Res.Points[name]++
}

// LoadOrGen unmarshals raw into dst when present, otherwise calls gen and stores its JSON into *raw.
func LoadOrGen[T any](raw *json.RawMessage, gen func() T) T {
	var v T
	if len(*raw) > 0 {
		if err := json.Unmarshal(*raw, &v); err != nil {
			panic(fmt.Sprintf("bad replay file section: %v", err))
		}
		return v
	}
	v = gen()
	b, err := json.Marshal(v)
	if err != nil {
		panic(err)
	}
	*raw = b
	return v
}

// Scenario is a simulated scenario. It runs inside a synctest bubble.
type Scenario func(c *Ctx)

var Scenarios = map[string]Scenario{}

// PropertyScenario maps a property id to the scenario that decides it (several properties may share one).
var PropertyScenario = map[string]string{}
