package bsim

import (
	"bufio"
	"encoding/json"
	"flag"
	"fmt"
	"io"
	"log"
	"os"
	"strconv"
	"strings"
	"testing"

	"bsim/core"
)

var (
	fProp     = flag.String("bsim.prop", "", "property id")
	fScenario = flag.String("bsim.scenario", "", "scenario (default: the property's)")
	fSeeds    = flag.String("bsim.seeds", "1:2", "seed range a:b (b exclusive)")
	fOut      = flag.String("bsim.out", "", "write one JSON result per line to this file")
	fReplay   = flag.String("bsim.replay", "", "replay file")
	fTier     = flag.String("bsim.tier", "quick", "quick|thorough")
	fLog      = flag.Bool("bsim.log", false, "keep full event logs in results")
	fStopBad  = flag.Bool("bsim.stop-on-bad", true, "stop after the first run with a violation or harness error")
	fTapeOut  = flag.Bool("bsim.tape", false, "keep consumed tapes in results (always kept for runs with violations)")
	fSpecs    = flag.String("bsim.specs", "", "file with one JSON spec per line: run each (used by the bounded enumeration)")
)

func TestMain(m *testing.M) {
	log.SetOutput(io.Discard)
	os.Exit(m.Run())
}

func parseRange(s string) (uint64, uint64) {
	p := strings.SplitN(s, ":", 2)
	a, _ := strconv.ParseUint(p[0], 10, 64)
	b := a + 1
	if len(p) == 2 {
		b, _ = strconv.ParseUint(p[1], 10, 64)
	}
	return a, b
}

// TestWorker runs a range of seeds of one property's scenario and writes results as JSON lines.
func TestWorker(t *testing.T) {
	if *fProp == "" && *fReplay == "" && *fSpecs == "" {
		t.Skip("no -bsim.prop")
	}
	var w *bufio.Writer
	if *fOut != "" {
		f, err := os.Create(*fOut)
		if err != nil {
			t.Fatal(err)
		}
		defer f.Close()
		w = bufio.NewWriter(f)
		defer w.Flush()
	}
	emit := func(r *core.Result) {
		if !*fTapeOut && len(r.Violations) == 0 && r.Harness == "" {
			r.Spec.Tape = nil
		}
		b, _ := json.Marshal(r)
		if w != nil {
			w.Write(b)
			w.WriteByte('\n')
			w.Flush()
		} else {
			fmt.Println(string(b))
		}
	}
	OnBusyLoop = func(r *core.Result) {
		emit(r)
		fmt.Fprintf(os.Stderr, "bsim: stopping: a call of seed %d never returns\n", r.Spec.Seed)
		os.Exit(10)
	}
	if *fReplay != "" {
		b, err := os.ReadFile(*fReplay)
		if err != nil {
			t.Fatal(err)
		}
		var spec core.Spec
		if err := json.Unmarshal(b, &spec); err != nil {
			t.Fatal(err)
		}
		spec.Replay = true
		r := RunSpec(t, spec, *fLog)
		emit(r)
		return
	}
	if *fSpecs != "" {
		f, err := os.Open(*fSpecs)
		if err != nil {
			t.Fatal(err)
		}
		defer f.Close()
		sc := bufio.NewScanner(f)
		sc.Buffer(make([]byte, 1<<20), 1<<26)
		for sc.Scan() {
			var spec core.Spec
			if err := json.Unmarshal(sc.Bytes(), &spec); err != nil {
				t.Fatal(err)
			}
			spec.Replay = true
			r := RunSpec(t, spec, *fLog)
			bad := len(r.Violations) > 0 || r.Harness != ""
			emit(r)
			if bad && *fStopBad {
				if w != nil {
					w.Flush()
				}
				os.Exit(10)
			}
		}
		return
	}
	a, b := parseRange(*fSeeds)
	for seed := a; seed < b; seed++ {
		spec := core.Spec{Property: *fProp, Scenario: *fScenario, Seed: seed, Tier: *fTier}
		r := RunSpec(t, spec, *fLog)
		emit(r)
		if (len(r.Violations) > 0 || r.Harness != "") && *fStopBad {
			// the process state may be polluted (leaked goroutines of the failed bubble): let the driver restart us
			if w != nil {
				w.Flush()
			}
			fmt.Fprintf(os.Stderr, "bsim: stopping after seed %d (violations=%d harness=%q)\n", seed, len(r.Violations), r.Harness)
			os.Exit(10)
		}
	}
}
