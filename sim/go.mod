module bsim

go 1.26.8

require (
	github.com/anishathalye/porcupine v1.3.0
	github.com/blevesearch/bleve/v2 v2.0.0
)

replace github.com/blevesearch/bleve/v2 => ../bleve
