// Package model holds the reference models and oracles of bsim: documents, the last-write-wins map model,
// the per-writer prefix decomposition, index construction from a knob configuration.
package model

import (
	"fmt"
	"hash/fnv"
	"sort"
	"strings"
	"time"

	"github.com/blevesearch/bleve/v2"
	"github.com/blevesearch/bleve/v2/mapping"
	index "github.com/blevesearch/bleve_index_api"
)

// Vocab is small and built to collide under prefix / wildcard / fuzzy / regexp queries.
var Vocab = []string{"cat", "car", "cab", "cart", "dog", "dot", "dig", "act", "art", "tab", "bat", "bar"}
var Kws = []string{"red", "green", "blue", "grey"}
var TagVals = []string{"t1", "t2", "t3", "tx", "ty"}
var Dates = []string{"2001-01-01T00:00:00Z", "2005-06-15T12:00:00Z", "2010-03-03T03:03:03Z", "2015-12-31T23:59:59Z", "2020-02-29T00:00:00Z", "2022-07-04T08:00:00Z"}

// Item is an element of the nested array "items".
type Item struct {
	Color string  `json:"color"`
	Size  float64 `json:"size"`
	Note  string  `json:"note,omitempty"`
	Parts []Part  `json:"parts,omitempty"` // second nesting level
}

// Part is an element of the array "parts" inside an item.
type Part struct {
	Code string `json:"code"`
}

// Extra is an element of the sibling nested array "extras".
type Extra struct {
	Kind string `json:"kind"`
}

var Codes = []string{"p1", "p2", "p3"}
var Kinds = []string{"k1", "k2", "k3"}

// Doc is one version of a document. Every version carries a unique Ver string so that any observation is
// attributable to exactly one write.
type Doc struct {
	ID      string   `json:"id"`
	Ver     string   `json:"ver"`
	Kw      string   `json:"kw,omitempty"`
	Body    []string `json:"body,omitempty"` // words; joined by one space
	Tags    []string `json:"tags,omitempty"`
	Num     float64  `json:"num"`
	HasNum  bool     `json:"has_num"`
	Date    string   `json:"date,omitempty"`
	Flag    bool     `json:"flag"`
	HasFlag bool     `json:"has_flag"`
	Items   []Item   `json:"items,omitempty"`
	Extras  []Extra  `json:"extras,omitempty"`
	Titles  []string `json:"titles,omitempty"` // multi-valued text field: each element is a phrase
}

func h64(parts ...any) uint64 {
	h := fnv.New64a()
	fmt.Fprint(h, parts...)
	x := h.Sum64()
	x ^= x >> 33
	x *= 0xff51afd7ed558ccd
	x ^= x >> 33
	return x
}

type bits struct{ x uint64 }

func (b *bits) n(n int) int {
	b.x = b.x*6364136223846793005 + 1442695040888963407
	return int((b.x >> 33) % uint64(n))
}

// MakeDoc derives the content of version ver of document id deterministically; rich adds nested items and titles.
func MakeDoc(id string, ver int, rich bool) Doc {
	b := &bits{h64(id, "#", ver)}
	d := Doc{ID: id, Ver: fmt.Sprintf("%s#%d", id, ver)}
	if b.n(8) != 0 {
		d.Kw = Kws[b.n(len(Kws))]
	}
	nw := b.n(7)
	for i := 0; i < nw; i++ {
		d.Body = append(d.Body, Vocab[b.n(len(Vocab))])
	}
	nt := b.n(4)
	seen := map[string]bool{}
	for i := 0; i < nt; i++ {
		t := TagVals[b.n(len(TagVals))]
		if !seen[t] {
			seen[t] = true
			d.Tags = append(d.Tags, t)
		}
	}
	if b.n(6) != 0 {
		d.HasNum = true
		d.Num = float64(b.n(12) - 3)
		if b.n(5) == 0 {
			d.Num += 0.5
		}
	}
	if b.n(5) != 0 {
		d.Date = Dates[b.n(len(Dates))]
	}
	if b.n(4) != 0 {
		d.HasFlag = true
		d.Flag = b.n(2) == 0
	}
	if rich {
		ni := b.n(4)
		for i := 0; i < ni; i++ {
			it := Item{Color: Kws[b.n(len(Kws))], Size: float64(b.n(4))}
			if b.n(2) == 0 {
				it.Note = Vocab[b.n(len(Vocab))]
			}
			np := b.n(3)
			for j := 0; j < np; j++ {
				it.Parts = append(it.Parts, Part{Code: Codes[b.n(len(Codes))]})
			}
			d.Items = append(d.Items, it)
		}
		ne := b.n(3)
		for i := 0; i < ne; i++ {
			d.Extras = append(d.Extras, Extra{Kind: Kinds[b.n(len(Kinds))]})
		}
		nt := b.n(3)
		for i := 0; i < nt; i++ {
			var ws []string
			for j := 0; j < 1+b.n(3); j++ {
				ws = append(ws, Vocab[b.n(len(Vocab))])
			}
			d.Titles = append(d.Titles, strings.Join(ws, " "))
		}
	}
	return d
}

// Input is the value handed to Index(): a plain map, like a JSON document.
func (d Doc) Input() map[string]interface{} {
	m := map[string]interface{}{"ver": d.Ver, "_type": "doc"}
	if d.Kw != "" {
		m["kw"] = d.Kw
	}
	if len(d.Body) > 0 {
		m["body"] = strings.Join(d.Body, " ")
	}
	if len(d.Tags) > 0 {
		ts := make([]interface{}, len(d.Tags))
		for i, t := range d.Tags {
			ts[i] = t
		}
		m["tags"] = ts
	}
	if d.HasNum {
		m["num"] = d.Num
	}
	if d.Date != "" {
		m["date"] = d.Date
	}
	if d.HasFlag {
		m["flag"] = d.Flag
	}
	// The elements of the object arrays are handed over in one of three Go shapes, chosen per document version: plain
	// maps, pointers to maps inside []interface{}, or a typed slice of pointers. The content is the same.
	shape := int(h64("shape", d.Ver) % 3)
	arr := func(ms []map[string]interface{}) interface{} {
		switch shape {
		case 1:
			out := make([]interface{}, len(ms))
			for i := range ms {
				out[i] = &ms[i]
			}
			return out
		case 2:
			out := make([]*map[string]interface{}, len(ms))
			for i := range ms {
				out[i] = &ms[i]
			}
			return out
		}
		out := make([]interface{}, len(ms))
		for i := range ms {
			out[i] = ms[i]
		}
		return out
	}
	if len(d.Items) > 0 {
		its := make([]map[string]interface{}, len(d.Items))
		for i, it := range d.Items {
			im := map[string]interface{}{"color": it.Color, "size": it.Size}
			if it.Note != "" {
				im["note"] = it.Note
			}
			if len(it.Parts) > 0 {
				ps := make([]map[string]interface{}, len(it.Parts))
				for j, p := range it.Parts {
					ps[j] = map[string]interface{}{"code": p.Code}
				}
				im["parts"] = arr(ps)
			}
			its[i] = im
		}
		m["items"] = arr(its)
	}
	if len(d.Extras) > 0 {
		es := make([]map[string]interface{}, len(d.Extras))
		for i, e := range d.Extras {
			es[i] = map[string]interface{}{"kind": e.Kind}
		}
		m["extras"] = arr(es)
	}
	if len(d.Titles) > 0 {
		ts := make([]interface{}, len(d.Titles))
		for i, t := range d.Titles {
			ts[i] = t
		}
		m["titles"] = ts
	}
	return m
}

// Stored is the canonical form of the stored fields of a document: field name -> values in order.
type Stored map[string][]string

func (s Stored) String() string {
	var ks []string
	for k := range s {
		ks = append(ks, k)
	}
	sort.Strings(ks)
	var b strings.Builder
	for _, k := range ks {
		fmt.Fprintf(&b, "%s=%q;", k, s[k])
	}
	return b.String()
}

func fnum(f float64) string { return fmt.Sprintf("%g", f) }

// ExpectStored is what Document(id) must return for this version.
func (d Doc) ExpectStored() Stored {
	s := Stored{"ver": {d.Ver}}
	if d.Kw != "" {
		s["kw"] = []string{d.Kw}
	}
	if len(d.Body) > 0 {
		s["body"] = []string{strings.Join(d.Body, " ")}
	}
	if len(d.Tags) > 0 {
		s["tags"] = append([]string(nil), d.Tags...)
	}
	if d.HasNum {
		s["num"] = []string{fnum(d.Num)}
	}
	if d.Date != "" {
		s["date"] = []string{d.Date}
	}
	if d.HasFlag {
		s["flag"] = []string{fmt.Sprint(d.Flag)}
	}
	for _, it := range d.Items {
		s["items.color"] = append(s["items.color"], it.Color)
		s["items.size"] = append(s["items.size"], fnum(it.Size))
		if it.Note != "" {
			s["items.note"] = append(s["items.note"], it.Note)
		}
		for _, p := range it.Parts {
			s["items.parts.code"] = append(s["items.parts.code"], p.Code)
		}
	}
	for _, e := range d.Extras {
		s["extras.kind"] = append(s["extras.kind"], e.Kind)
	}
	if len(d.Titles) > 0 {
		s["titles"] = append([]string(nil), d.Titles...)
	}
	return s
}

type textField interface{ Text() string }
type numField interface{ Number() (float64, error) }
type dateField interface {
	DateTime() (time.Time, string, error)
}
type boolField interface{ Boolean() (bool, error) }

// StoredOf extracts the canonical stored form of a document returned by bleve (nil doc -> nil).
func StoredOf(doc index.Document) Stored {
	if doc == nil {
		return nil
	}
	s := Stored{}
	doc.VisitFields(func(f index.Field) {
		if f.Name() == "_id" {
			return
		}
		var v string
		switch ft := f.(type) {
		case textField:
			v = ft.Text()
		case numField:
			n, err := ft.Number()
			if err != nil {
				v = "ERR:" + err.Error()
			} else {
				v = fnum(n)
			}
		case dateField:
			t, _, err := ft.DateTime()
			if err != nil {
				v = "ERR:" + err.Error()
			} else {
				v = t.UTC().Format(time.RFC3339)
			}
		case boolField:
			b, err := ft.Boolean()
			if err != nil {
				v = "ERR:" + err.Error()
			} else {
				v = fmt.Sprint(b)
			}
		default:
			v = fmt.Sprintf("?%T:%x", f, f.Value())
		}
		s[f.Name()] = append(s[f.Name()], v)
	})
	return s
}

// Mapping builds the index mapping used by all scenarios. nested=true declares "items" as a nested array.
func Mapping(nested bool) mapping.IndexMapping {
	im := bleve.NewIndexMapping()
	im.DefaultAnalyzer = "simple"
	dm := bleve.NewDocumentStaticMapping()
	kw := func() *mapping.FieldMapping {
		f := bleve.NewKeywordFieldMapping()
		f.Store, f.IncludeInAll, f.DocValues = true, false, true
		return f
	}
	tx := func() *mapping.FieldMapping {
		f := bleve.NewTextFieldMapping()
		f.Analyzer = "simple"
		f.Store, f.IncludeInAll, f.IncludeTermVectors, f.DocValues = true, false, true, true
		return f
	}
	nm := func() *mapping.FieldMapping {
		f := bleve.NewNumericFieldMapping()
		f.Store, f.IncludeInAll, f.DocValues = true, false, true
		return f
	}
	dm.AddFieldMappingsAt("ver", kw())
	dm.AddFieldMappingsAt("kw", kw())
	// tags carries no persisted doc values: sorts, facets and doc-value visits on it go through scorch's un-inverting
	// cache (cachedDocs), which is shared by every snapshot of a segment
	tg := kw()
	tg.DocValues = false
	dm.AddFieldMappingsAt("tags", tg)
	dm.AddFieldMappingsAt("body", tx())
	dm.AddFieldMappingsAt("titles", tx())
	dm.AddFieldMappingsAt("num", nm())
	dt := bleve.NewDateTimeFieldMapping()
	dt.Store, dt.IncludeInAll, dt.DocValues = true, false, true
	dm.AddFieldMappingsAt("date", dt)
	bf := bleve.NewBooleanFieldMapping()
	bf.Store, bf.IncludeInAll, bf.DocValues = true, false, true
	dm.AddFieldMappingsAt("flag", bf)
	sub := func() *mapping.DocumentMapping {
		if nested {
			return bleve.NewNestedDocumentStaticMapping()
		}
		return bleve.NewDocumentStaticMapping()
	}
	items := sub()
	items.AddFieldMappingsAt("color", kw())
	items.AddFieldMappingsAt("size", nm())
	items.AddFieldMappingsAt("note", tx())
	parts := sub() // second nesting level
	parts.AddFieldMappingsAt("code", kw())
	items.AddSubDocumentMapping("parts", parts)
	dm.AddSubDocumentMapping("items", items)
	extras := sub() // sibling array
	extras.AddFieldMappingsAt("kind", kw())
	dm.AddSubDocumentMapping("extras", extras)
	if nested {
		// the nested mapping hangs off a type mapping, not the default mapping: documents carry "_type": "doc"
		im.AddDocumentMapping("doc", dm)
		im.DefaultMapping = bleve.NewDocumentDisabledMapping()
	} else {
		im.DefaultMapping = dm
	}
	return im
}
