package model

import (
	"fmt"
	"sort"
	"strconv"
)

// DocOp is one operation on a document id inside a batch: index version Ver, or delete.
type DocOp struct {
	ID  string `json:"id"`
	Ver int    `json:"v,omitempty"`
	Del bool   `json:"del,omitempty"`
}

// IntOp is one operation on an internal key.
type IntOp struct {
	Key string `json:"key"`
	Val string `json:"val,omitempty"`
	Del bool   `json:"del,omitempty"`
}

// Batch is an ordered list of operations applied together (last operation per id / key wins).
type Batch struct {
	Docs []DocOp `json:"docs,omitempty"`
	Ints []IntOp `json:"ints,omitempty"`
}

// MapModel is the reference model of an index: id -> latest version, internal key -> latest value.
type MapModel struct {
	Docs map[string]int // id -> live version
	Ints map[string]string
}

func NewMapModel() *MapModel { return &MapModel{Docs: map[string]int{}, Ints: map[string]string{}} }

func (m *MapModel) Clone() *MapModel {
	c := NewMapModel()
	for k, v := range m.Docs {
		c.Docs[k] = v
	}
	for k, v := range m.Ints {
		c.Ints[k] = v
	}
	return c
}

// Apply applies a batch: operations take effect together, the last one per id winning.
func (m *MapModel) Apply(b Batch) {
	for _, op := range b.Docs {
		if op.Del {
			delete(m.Docs, op.ID)
		} else {
			m.Docs[op.ID] = op.Ver
		}
	}
	for _, op := range b.Ints {
		if op.Del {
			delete(m.Ints, op.Key)
		} else {
			m.Ints[op.Key] = op.Val
		}
	}
}

func (m *MapModel) LiveIDs() []string {
	ids := make([]string, 0, len(m.Docs))
	for id := range m.Docs {
		ids = append(ids, id)
	}
	sort.Strings(ids)
	return ids
}

// ---- per-writer prefix decomposition -------------------------------------------------------------------

// WriterID names the ids owned by writer w.
func WriterID(w, d int) string { return fmt.Sprintf("w%d-d%d", w, d) }

// MarkerKey is the internal key in which writer w stores the sequence number of its latest batch.
func MarkerKey(w int) string { return fmt.Sprintf("m-w%d", w) }

// WriterPrefixes precomputes, for one writer, the model state after each prefix of its batches.
type WriterPrefixes struct {
	W      int
	NDocs  int         // size of the writer's id range
	States []*MapModel // States[k] = state after k batches (k = 0..n)
}

func NewWriterPrefixes(w, ndocs int, batches []Batch) *WriterPrefixes {
	wp := &WriterPrefixes{W: w, NDocs: ndocs}
	m := NewMapModel()
	wp.States = append(wp.States, m.Clone())
	for k, b := range batches {
		m.Apply(b)
		m.Ints[MarkerKey(w)] = strconv.Itoa(k + 1)
		wp.States = append(wp.States, m.Clone())
	}
	return wp
}

// Observation of one writer's slice of the index: marker value and id -> version string ("" = absent).
type WriterObs struct {
	Marker string            // "" = absent
	Vers   map[string]string // id -> stored "ver" field ("" absent)
}

// Decompose checks that the observation equals the writer's state after exactly k batches, k given by
// the marker, and returns k. A mismatch is a partial / garbage batch.
func (wp *WriterPrefixes) Decompose(o WriterObs) (int, error) {
	k := 0
	if o.Marker != "" {
		var err error
		k, err = strconv.Atoi(o.Marker)
		if err != nil || k < 0 || k >= len(wp.States) {
			return -1, fmt.Errorf("writer %d: marker %q is not a batch number in 0..%d", wp.W, o.Marker, len(wp.States)-1)
		}
	}
	st := wp.States[k]
	for d := 0; d < wp.NDocs; d++ {
		id := WriterID(wp.W, d)
		want := ""
		if v, ok := st.Docs[id]; ok {
			want = fmt.Sprintf("%s#%d", id, v)
		}
		if got := o.Vers[id]; got != want {
			// say which prefix the doc would fit, for the report
			fits := []int{}
			for kk, s2 := range wp.States {
				w2 := ""
				if v, ok := s2.Docs[id]; ok {
					w2 = fmt.Sprintf("%s#%d", id, v)
				}
				if w2 == got {
					fits = append(fits, kk)
				}
			}
			return k, fmt.Errorf("writer %d: marker says %d batches applied but doc %s is %q, want %q (that value belongs to prefixes %v)", wp.W, k, id, got, want, fits)
		}
	}
	return k, nil
}
