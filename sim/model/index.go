package model

import (
	"fmt"

	"github.com/blevesearch/bleve/v2"
	_ "github.com/blevesearch/bleve/v2/config"
	"github.com/blevesearch/bleve/v2/index/scorch"
	"github.com/blevesearch/bleve/v2/index/upsidedown"
	"github.com/blevesearch/bleve/v2/index/upsidedown/store/boltdb"
	"github.com/blevesearch/bleve/v2/index/upsidedown/store/goleveldb"
	"github.com/blevesearch/bleve/v2/index/upsidedown/store/gtreap"
	_ "github.com/blevesearch/bleve/v2/index/upsidedown/store/metrics"
	"github.com/blevesearch/bleve/v2/index/upsidedown/store/moss"
	"github.com/blevesearch/bleve/v2/mapping"
	gometrics "github.com/blevesearch/go-metrics"
)

func init() {
	// go-metrics starts one process-wide ticker goroutine on the first NewMeter. It must be started outside any
	// synctest bubble: a goroutine inside a bubble that waits on that (non-bubble) ticker is never durably
	// blocked, and the simulation would hang.
	gometrics.NewMeter().Stop()
}

// IndexCfg is the knob configuration of one index instance (part of the replay file).
type IndexCfg struct {
	Engine    string `json:"engine"`       // "scorch" | "upsidedown"
	KV        string `json:"kv,omitempty"` // upsidedown: boltdb | gtreap | goleveldb | moss | metrics-boltdb | metrics-gtreap
	InMem     bool   `json:"inmem,omitempty"`
	Unsafe    bool   `json:"unsafe,omitempty"`
	ForceSafe bool   `json:"force_safe,omitempty"`
	SegVer    int    `json:"segver,omitempty"`  // forceSegmentVersion (0 = default)
	SegType   string `json:"segtype,omitempty"` // forceSegmentType (default "zap"); "simzap" = fault-injecting wrapper around zap v17
	Nested    bool   `json:"nested,omitempty"`

	NapMS         int `json:"nap_ms"`
	NapUnderFiles int `json:"nap_under_files,omitempty"`
	Workers       int `json:"workers,omitempty"`
	MaxMemMerge   int `json:"max_mem_merge,omitempty"`
	MinSegsMem    int `json:"min_segs_mem,omitempty"` // scorch.DefaultMinSegmentsForInMemoryMerge (global)

	MaxSegmentsPerTier   int     `json:"mp_max_per_tier,omitempty"`
	SegmentsPerMergeTask int     `json:"mp_per_task,omitempty"`
	FloorSegmentSize     int64   `json:"mp_floor,omitempty"`
	TierGrowth           float64 `json:"mp_growth,omitempty"`

	KeepSnapshots   int     `json:"keep,omitempty"`
	SamplingMS      int     `json:"sampling_ms,omitempty"`
	RetentionFactor float64 `json:"retention,omitempty"`
	TFRCache1       int     `json:"tfr_cache1,omitempty"` // fieldTFRCacheThreshold+1 (0 = unset)

	EventCB string `json:"-"` // name in scorch.RegistryEventCallbacks
	AsyncCB string `json:"-"`
}

// GenIndexCfg draws a scorch on-disk configuration (knob swarm).
func GenIndexCfg(r interface{ Intn(int) int }) IndexCfg {
	c := IndexCfg{Engine: "scorch"}
	c.NapMS = []int{0, 0, 1, 20, 200}[r.Intn(5)]
	c.NapUnderFiles = []int{1000, 1000, 1, 2, 4}[r.Intn(5)]
	c.Workers = []int{1, 1, 2, 4}[r.Intn(4)]
	// the threshold is compared with an in-memory size estimate that includes capacities of pooled buffers, i.e. it
	// is not a function of the logical content; only values far from any real size keep runs reproducible
	c.MaxMemMerge = []int{0, 0, 1, 1, 1 << 40}[r.Intn(5)]
	if c.Workers > 1 && c.MaxMemMerge == 0 {
		c.MaxMemMerge = []int{1, 1, 1 << 40}[r.Intn(3)]
	}
	c.MinSegsMem = []int{2, 2, 3}[r.Intn(3)]
	if r.Intn(3) != 0 {
		c.MaxSegmentsPerTier = 1 + r.Intn(6)
		c.SegmentsPerMergeTask = 2 + r.Intn(4)
		if c.MaxSegmentsPerTier < c.SegmentsPerMergeTask && r.Intn(2) == 0 {
			c.MaxSegmentsPerTier = c.SegmentsPerMergeTask
		}
		c.FloorSegmentSize = []int64{1, 10, 1000, 10000}[r.Intn(4)]
		c.TierGrowth = []float64{0, 2, 10}[r.Intn(3)]
	}
	c.KeepSnapshots = []int{0, 1, 2, 3, 4}[r.Intn(5)]
	// fieldTFRCacheThreshold stays at its default (0 = recycling off): the recycling of term field readers is
	// disabled upstream because it returns wrong results (MB-64604); only the C02 scenario turns it on, rarely,
	// and keys what it then sees as a known finding
	// one configuration in five uses an older segment format (zap v11-v16): what is written to root.bolt, copied by
	// CopyTo and read back by Open / Rollback has to name the format the files really have
	if r.Intn(5) == 0 {
		c.SegVer = 11 + r.Intn(6)
	}
	return c
}

// Config renders the kvconfig map handed to bleve.NewUsing / the runtime config for OpenUsing.
func (c IndexCfg) Config() map[string]interface{} {
	m := map[string]interface{}{}
	if c.Engine == "upsidedown" {
		switch c.KV {
		case "boltdb":
			m["bucket"] = "bleve"
			m["initialMmapSize"] = 64 << 20
		case "metrics-boltdb":
			m["kvStoreName_actual"] = boltdb.Name
			m["bucket"] = "bleve"
			m["initialMmapSize"] = 64 << 20
		case "metrics-gtreap":
			m["kvStoreName_actual"] = gtreap.Name
		}
		return m
	}
	if c.Unsafe {
		m["unsafe_batch"] = true
	} else if c.ForceSafe {
		m["unsafe_batch"] = false // runtime override of a stored unsafe_batch
	}
	if c.SegVer != 0 || c.SegType != "" {
		st, sv := c.SegType, c.SegVer
		if st == "" {
			st = "zap"
		}
		if sv == 0 {
			sv = 17
		}
		m["forceSegmentType"] = st
		m["forceSegmentVersion"] = sv
	}
	po := map[string]interface{}{"PersisterNapTimeMSec": c.NapMS}
	if c.NapUnderFiles != 0 {
		po["PersisterNapUnderNumFiles"] = c.NapUnderFiles
	}
	if c.Workers != 0 {
		po["NumPersisterWorkers"] = c.Workers
	}
	if c.MaxMemMerge != 0 {
		po["MaxSizeInMemoryMergePerWorker"] = c.MaxMemMerge
	}
	m["scorchPersisterOptions"] = po
	if c.MaxSegmentsPerTier != 0 {
		mp := map[string]interface{}{"MaxSegmentsPerTier": c.MaxSegmentsPerTier, "SegmentsPerMergeTask": c.SegmentsPerMergeTask, "FloorSegmentSize": c.FloorSegmentSize}
		if c.TierGrowth != 0 {
			mp["TierGrowth"] = c.TierGrowth
		}
		m["scorchMergePlanOptions"] = mp
	}
	if c.KeepSnapshots != 0 {
		m["numSnapshotsToKeep"] = c.KeepSnapshots
	}
	if c.SamplingMS != 0 {
		m["rollbackSamplingInterval"] = fmt.Sprintf("%dms", c.SamplingMS)
	}
	if c.RetentionFactor != 0 {
		m["rollbackRetentionFactor"] = c.RetentionFactor
	}
	if c.TFRCache1 > 0 {
		m["fieldTFRCacheThreshold"] = c.TFRCache1 - 1
	}
	if c.EventCB != "" {
		m["eventCallbackName"] = c.EventCB
	}
	if c.AsyncCB != "" {
		m["asyncErrorCallbackName"] = c.AsyncCB
	}
	return m
}

func (c IndexCfg) applyGlobals() {
	if c.Engine != "upsidedown" && c.MinSegsMem >= 0 {
		if c.MinSegsMem >= 2 {
			scorch.DefaultMinSegmentsForInMemoryMerge = c.MinSegsMem
		} else {
			scorch.DefaultMinSegmentsForInMemoryMerge = 2
		}
	}
}

func (c IndexCfg) kvName() string {
	switch c.KV {
	case "boltdb":
		return boltdb.Name
	case "gtreap":
		return gtreap.Name
	case "goleveldb":
		return goleveldb.Name
	case "moss":
		return moss.Name
	case "metrics-boltdb", "metrics-gtreap":
		return "metrics"
	}
	return c.KV
}

// Create creates a new index at path ("" = in memory) with this configuration.
func (c IndexCfg) Create(path string, m mapping.IndexMapping) (bleve.Index, error) {
	c.applyGlobals()
	if c.InMem {
		path = ""
	}
	if c.Engine == "upsidedown" {
		return bleve.NewUsing(path, m, upsidedown.Name, c.kvName(), c.Config())
	}
	return bleve.NewUsing(path, m, scorch.Name, scorch.Name, c.Config())
}

// Open opens an existing index with this configuration's runtime knobs.
func (c IndexCfg) Open(path string) (bleve.Index, error) {
	c.applyGlobals()
	return bleve.OpenUsing(path, c.Config())
}

// RecoveryCfg is the configuration used by recovery checks: no naps (no timers), globals untouched, otherwise defaults.
func RecoveryCfg() IndexCfg {
	return IndexCfg{Engine: "scorch", NapMS: 0, MinSegsMem: -1, ForceSafe: true}
}
