package scen

import (
	"context"
	"fmt"
	"path/filepath"
	"sort"
	"strings"

	"bsim/core"
	"bsim/model"
	"bsim/qeval"
	"bsim/sched"

	"github.com/blevesearch/bleve/v2"
	"github.com/blevesearch/bleve/v2/index/scorch"
	"github.com/blevesearch/bleve/v2/search/searcher"
)

// HistCfg configures the single-client history scenario (C01, C02, C20).
type HistCfg struct {
	A         model.IndexCfg `json:"a"` // primary instance (under the scheduler)
	B         model.IndexCfg `json:"b"` // second instance of a different configuration, driven under another batch partition
	Sched     sched.Config   `json:"sched"`
	NIDs      int            `json:"nids"`
	Rich      bool           `json:"rich,omitempty"`
	Nested    bool           `json:"nested,omitempty"`
	AnalysisQ int            `json:"analysis_q"`
	// searcher knobs (process globals, restored after the run)
	HeapTakeover   int `json:"heap_takeover,omitempty"`
	UnadornedCard1 int `json:"unadorned_card1,omitempty"` // OptimizeDisjunctionUnadornedMinChildCardinality+1
}

// HistOp is one client operation.
type HistOp struct {
	K     string       `json:"k"` // index delete batch setint delint forcemerge reopen query
	ID    string       `json:"id,omitempty"`
	Ver   int          `json:"v,omitempty"`
	Batch *model.Batch `json:"batch,omitempty"`
	Key   string       `json:"key,omitempty"`
	Val   string       `json:"val,omitempty"`
	Q     *qeval.Q     `json:"q,omitempty"`
	Split []int        `json:"split,omitempty"` // how instance B partitions the write ops up to here (sizes of fused groups)
}

// HistWL is the workload.
type HistWL struct {
	Ops []HistOp `json:"ops"`
	// FuseB: instance B fuses runs of up to FuseB consecutive single write ops into one batch and splits batch ops
	FuseB int `json:"fuse_b"`
}

var allKVs = []string{"gtreap", "boltdb", "goleveldb", "moss", "metrics-boltdb", "metrics-gtreap"}

// udcCfg is an upsidedown configuration; gtreap lives in memory only.
func udcCfg(kv string) model.IndexCfg {
	return model.IndexCfg{Engine: "upsidedown", KV: kv, InMem: kv == "gtreap" || kv == "metrics-gtreap"}
}

func genHistIndex(g *sched.Rand, primary bool) model.IndexCfg {
	switch g.Intn(9) {
	case 0:
		c := model.GenIndexCfg(g)
		c.InMem = true
		return c
	case 1:
		c := model.GenIndexCfg(g)
		c.SegVer = 11 + g.Intn(7)
		return c
	case 2, 3:
		return udcCfg(allKVs[g.Intn(len(allKVs))])
	case 4, 5, 6:
		// unsafe batches: the only way a single client piles up several unpersisted segments, which is what the
		// in-memory merge paths (several persister workers, per-worker size budgets) need in order to run at all
		c := model.GenIndexCfg(g)
		c.Unsafe = true
		if g.Intn(2) == 0 {
			c.Workers = 2 + g.Intn(3)
			c.MaxMemMerge = 1
			c.NapMS = []int{1, 20, 200}[g.Intn(3)]
		}
		return c
	default:
		return model.GenIndexCfg(g)
	}
}

func genHist(c *core.Ctx) (HistCfg, HistWL) {
	g := c.Gen
	prop := c.Spec.Property
	cfg := HistCfg{A: genHistIndex(g, true), B: genHistIndex(g, false), AnalysisQ: 1 + g.Intn(3)}
	if g.Intn(3) != 0 && cfg.A.Engine != "scorch" {
		cfg.A = model.GenIndexCfg(g) // most primaries are scorch on disk: that is where background work interleaves
	}
	cfg.Sched = genSchedCfg(g, cfg.A.Engine == "scorch")
	cfg.NIDs = 6
	nops := 10 + g.Intn(50)
	qshare := 0
	switch prop {
	case "C02":
		cfg.NIDs = 8 + g.Intn(17)
		cfg.Rich = g.Intn(2) == 0
		nops = 20 + g.Intn(40)
		qshare = 45
		cfg.HeapTakeover = []int{0, 1, 3, 10}[g.Intn(4)]
		cfg.UnadornedCard1 = []int{0, 1, 2, 257}[g.Intn(4)]
		if g.Intn(25) == 0 && cfg.A.Engine == "scorch" {
			cfg.A.TFRCache1 = []int{2, 9}[g.Intn(2)]
		}
		if g.Intn(2) == 0 {
			// engine agreement: the two instances use different engines
			if cfg.A.Engine == "scorch" {
				cfg.B = udcCfg(allKVs[g.Intn(2)])
			} else {
				cfg.B = model.GenIndexCfg(g)
			}
		}
	case "C20":
		cfg.NIDs = 6 + g.Intn(6)
		cfg.Rich, cfg.Nested = true, true
		qshare = 35
		nops = 15 + g.Intn(40)
		// nested mappings are a scorch feature
		cfg.A = model.GenIndexCfg(g)
		cfg.B = model.GenIndexCfg(g)
		cfg.B.InMem = g.Intn(2) == 0
		cfg.A.SegVer, cfg.B.SegVer = 0, 0 // segment formats before zap v17 do not know nested documents
	}
	if c.Quick && nops > 40 {
		nops = 40
	}
	ids := make([]string, cfg.NIDs)
	for i := range ids {
		ids[i] = fmt.Sprintf("d%02d", i)
	}
	intKeys := []string{"ik0", "ik1", "ik2"}
	ver := 0
	wl := HistWL{FuseB: 1 + g.Intn(6)}
	docOp := func() model.DocOp {
		id := ids[g.Intn(len(ids))]
		if g.Intn(4) == 0 {
			return model.DocOp{ID: id, Del: true}
		}
		ver++
		return model.DocOp{ID: id, Ver: ver}
	}
	canReopen := func(ic model.IndexCfg) bool {
		return !ic.InMem && !ic.Unsafe && ic.KV != "gtreap" && ic.KV != "moss" && ic.KV != "metrics-gtreap"
	}
	for i := 0; i < nops; i++ {
		if qshare > 0 && i > 3 && g.Intn(100) < qshare {
			var q qeval.Q
			if prop == "C20" {
				q = qeval.GenNested(g, 2, ids)
			} else {
				q = qeval.Gen(g, 3, ids, cfg.Rich)
			}
			wl.Ops = append(wl.Ops, HistOp{K: "query", Q: &q})
			continue
		}
		switch r := g.Intn(20); {
		case r < 7:
			op := docOp()
			if op.Del {
				wl.Ops = append(wl.Ops, HistOp{K: "delete", ID: op.ID})
			} else {
				wl.Ops = append(wl.Ops, HistOp{K: "index", ID: op.ID, Ver: op.Ver})
			}
		case r < 14:
			b := &model.Batch{}
			n := g.Intn(9) // 0 = empty batch
			for j := 0; j < n; j++ {
				b.Docs = append(b.Docs, docOp())
			}
			if g.Intn(4) == 0 {
				k := intKeys[g.Intn(3)]
				if g.Intn(3) == 0 {
					b.Ints = append(b.Ints, model.IntOp{Key: k, Del: true})
				} else {
					ver++
					b.Ints = append(b.Ints, model.IntOp{Key: k, Val: fmt.Sprint("v", ver)})
				}
			}
			wl.Ops = append(wl.Ops, HistOp{K: "batch", Batch: b})
		case r < 16:
			ver++
			wl.Ops = append(wl.Ops, HistOp{K: "setint", Key: intKeys[g.Intn(3)], Val: fmt.Sprint("v", ver)})
		case r < 17:
			wl.Ops = append(wl.Ops, HistOp{K: "delint", Key: intKeys[g.Intn(3)]})
		case r < 19:
			if cfg.A.Engine == "scorch" && !cfg.A.InMem {
				wl.Ops = append(wl.Ops, HistOp{K: "forcemerge"})
			}
		default:
			if canReopen(cfg.A) {
				wl.Ops = append(wl.Ops, HistOp{K: "reopen"})
			}
		}
	}
	return cfg, wl
}

// histClient drives one instance and checks it against the model after every operation.
type histClient struct {
	c      *core.Ctx
	s      *sched.Sched
	name   string
	cfg    model.IndexCfg
	hc     *HistCfg
	path   string
	idx    bleve.Index
	m      *model.MapModel
	ids    []string
	keys   []string
	checks int
	failed bool
}

func (h *histClient) engineSig() map[string]string {
	return map[string]string{"engine": h.cfg.Engine}
}

func (h *histClient) verify(after string) bool {
	st, err := ReadState(h.idx, h.ids, h.keys)
	if err != nil {
		h.c.ViolateProp("C01", "read-error", h.engineSig(), h.s.Steps, "%s after %s: %v", h.name, after, err)
		h.failed = true
		return false
	}
	h.checks++
	if bad := CheckStateN(st, h.m, h.ids, h.keys, h.hc.Rich, h.hc.Nested); len(bad) > 0 {
		h.c.ViolateProp("C01", "state-differs-from-model", h.engineSig(), h.s.Steps, "%s (%s/%s) after %s: %s", h.name, h.cfg.Engine, h.cfg.KV, after, strings.Join(bad, "; "))
		h.failed = true
		return false
	}
	return true
}

func (h *histClient) applyBatch(b model.Batch, what string) bool {
	bb, err := BuildBatch(h.idx, b, h.hc.Rich)
	if err != nil {
		h.c.Res.Harness = "build batch: " + err.Error()
		return false
	}
	if err := h.idx.Batch(bb); err != nil {
		h.c.ViolateProp("C01", "write-error", h.engineSig(), h.s.Steps, "%s %s: %v", h.name, what, err)
		h.failed = true
		return false
	}
	h.m.Apply(b)
	return true
}

func (h *histClient) write(op HistOp) bool {
	var err error
	switch op.K {
	case "index":
		err = h.idx.Index(op.ID, model.MakeDoc(op.ID, op.Ver, h.hc.Rich).Input())
		h.m.Apply(model.Batch{Docs: []model.DocOp{{ID: op.ID, Ver: op.Ver}}})
	case "delete":
		err = h.idx.Delete(op.ID)
		h.m.Apply(model.Batch{Docs: []model.DocOp{{ID: op.ID, Del: true}}})
	case "setint":
		err = h.idx.SetInternal([]byte(op.Key), []byte(op.Val))
		h.m.Apply(model.Batch{Ints: []model.IntOp{{Key: op.Key, Val: op.Val}}})
	case "delint":
		err = h.idx.DeleteInternal([]byte(op.Key))
		h.m.Apply(model.Batch{Ints: []model.IntOp{{Key: op.Key, Del: true}}})
	case "batch":
		return h.applyBatch(*op.Batch, "batch")
	}
	if err != nil {
		h.c.ViolateProp("C01", "write-error", h.engineSig(), h.s.Steps, "%s %s: %v", h.name, op.K, err)
		h.failed = true
		return false
	}
	return true
}

// opAsBatch expresses any write op as a model batch.
func opAsBatch(op HistOp) model.Batch {
	switch op.K {
	case "index":
		return model.Batch{Docs: []model.DocOp{{ID: op.ID, Ver: op.Ver}}}
	case "delete":
		return model.Batch{Docs: []model.DocOp{{ID: op.ID, Del: true}}}
	case "setint":
		return model.Batch{Ints: []model.IntOp{{Key: op.Key, Val: op.Val}}}
	case "delint":
		return model.Batch{Ints: []model.IntOp{{Key: op.Key, Del: true}}}
	case "batch":
		return *op.Batch
	}
	return model.Batch{}
}

func isWrite(k string) bool {
	return k == "index" || k == "delete" || k == "setint" || k == "delint" || k == "batch"
}

type hitSet struct {
	ids   []string
	total uint64
	dup   bool
}

func (h hitSet) String() string { return fmt.Sprintf("total=%d ids=%v", h.total, h.ids) }

func runQuery(idx bleve.Index, q qeval.Q, size int, score string, locs, explain bool) (hitSet, error) {
	req := bleve.NewSearchRequestOptions(q.Bleve(), size, 0, explain)
	req.Score = score
	req.IncludeLocations = locs
	res, err := idx.Search(req)
	if err != nil {
		return hitSet{}, err
	}
	hs := hitSet{total: res.Total}
	seen := map[string]bool{}
	for _, h := range res.Hits {
		if seen[h.ID] {
			hs.dup = true
		}
		seen[h.ID] = true
		hs.ids = append(hs.ids, h.ID)
	}
	sort.Strings(hs.ids)
	return hs, nil
}

// walkAfter pages through the hits of q in _id order with SearchAfter, pageSize hits at a time.
func walkAfter(idx bleve.Index, q qeval.Q, pageSize int) (ids []string, totals []uint64, err error) {
	var after []string
	for page := 0; page < 200; page++ {
		req := bleve.NewSearchRequestOptions(q.Bleve(), pageSize, 0, false)
		req.SortBy([]string{"_id"})
		if after != nil {
			req.SetSearchAfter(after)
		}
		res, err := idx.Search(req)
		if err != nil {
			return ids, totals, err
		}
		totals = append(totals, res.Total)
		if len(res.Hits) == 0 {
			break
		}
		for _, h := range res.Hits {
			ids = append(ids, h.ID)
		}
		after = append([]string(nil), res.Hits[len(res.Hits)-1].Sort...)
	}
	return ids, totals, nil
}

// checkQuery applies the three oracle layers of C02 to one query on one instance.
func (h *histClient) checkQuery(q qeval.Q, prop string) {
	cx := &qeval.Ctx{}
	var want []string
	for _, id := range h.m.LiveIDs() {
		d := model.MakeDoc(id, h.m.Docs[id], h.hc.Rich)
		var ok bool
		if h.hc.Nested {
			ok = q.EvalNested(qeval.Analyse(d), cx)
		} else {
			ok = q.Eval(qeval.Analyse(d), cx)
		}
		if ok {
			want = append(want, id)
		}
	}
	sort.Strings(want)
	ws := hitSet{ids: want, total: uint64(len(want))}
	size := len(h.ids) + 10
	type variant struct {
		score         string
		locs, explain bool
	}
	vars := []variant{{"", false, false}, {"none", false, false}, {"", true, false}, {"", false, true}, {"none", true, false}}
	var first hitSet
	for i, v := range vars {
		got, err := runQuery(h.idx, q, size, v.score, v.locs, v.explain)
		h.checks++
		sig := map[string]string{"engine": h.cfg.Engine}
		if h.cfg.TFRCache1 > 0 {
			sig["tfr_cache"] = "on"
		}
		if err != nil {
			h.c.ViolateProp(prop, "search-error", sig, h.s.Steps, "%s: %s (score=%q locs=%v explain=%v): %v", h.name, q, v.score, v.locs, v.explain, err)
			return
		}
		if got.dup {
			h.c.ViolateProp(prop, "duplicate-hit", sig, h.s.Steps, "%s: %s returned a document twice: %v", h.name, q, got)
		}
		if i == 0 {
			first = got
			if got.String() != ws.String() {
				if cx.FuzzyGap && h.cfg.Engine == "scorch" {
					sig["gap"] = "fuzzy-transposition"
				}
				if h.hc.Nested {
					if sh := q.NestedShape(); sh != "" {
						sig["shape"] = sh
					}
				}
				h.c.ViolateProp(prop, "differs-from-documented-meaning", sig, h.s.Steps, "%s (%s/%s): %s\n  got : %v\n  want: %v", h.name, h.cfg.Engine, h.cfg.KV, q, got, ws)
			}
		} else if first.total > uint64(size) && got.total == first.total {
			// more hits than the page holds (only possible when element documents come back as hits, finding 10.13):
			// which of them fill the page depends on the scores, so the hit lists are not comparable
		} else if got.String() != first.String() {
			sig["option"] = fmt.Sprintf("score=%s", v.score)
			if v.score == "" {
				sig["option"] = fmt.Sprintf("locs=%v,explain=%v", v.locs, v.explain)
			}
			// repeat both requests: does the answer depend on the option, or on the moment?
			again0, _ := runQuery(h.idx, q, size, vars[0].score, vars[0].locs, vars[0].explain)
			againV, _ := runQuery(h.idx, q, size, v.score, v.locs, v.explain)
			h.c.ViolateProp(prop, "answer-depends-on-options", sig, h.s.Steps, "%s (%s/%s): %s\n  default options: %v\n  score=%q locs=%v explain=%v: %v\n  documented meaning: %v\n  repeated: default options: %v; variant: %v", h.name, h.cfg.Engine, h.cfg.KV, q, first, v.score, v.locs, v.explain, got, ws, again0, againV)
		}
	}
	// the same hits, once each, with the same Total on every page, when they are fetched two at a time with
	// SearchAfter in _id order (key-set paging goes through another collector constructor than From/Size)
	if len(first.ids) > 0 && !(h.hc.Nested && q.NestedShape() != "") {
		ids, totals, err := walkAfter(h.idx, q, 2)
		h.checks++
		sig := map[string]string{"engine": h.cfg.Engine}
		if h.cfg.TFRCache1 > 0 {
			sig["tfr_cache"] = "on"
		}
		bad := err != nil || fmt.Sprint(ids) != fmt.Sprint(first.ids)
		for _, t := range totals {
			if t != first.total {
				bad = true
			}
		}
		if bad {
			h.c.ViolateProp(prop, "paging-differs", sig, h.s.Steps, "%s (%s/%s): %s\n  one page: %v\n  SearchAfter walk, 2 per page, sort _id: ids=%v totals=%v err=%v", h.name, h.cfg.Engine, h.cfg.KV, q, first, ids, totals, err)
		}
	}
}

func histScenario(c *core.Ctx) {
	var cfg HistCfg
	var wl HistWL
	if len(c.Spec.Config) == 0 || len(c.Spec.Workload) == 0 {
		cfg, wl = genHist(c)
		c.Spec.Config, c.Spec.Workload = nil, nil
	}
	cfg = core.LoadOrGen(&c.Spec.Config, func() HistCfg { return cfg })
	wl = core.LoadOrGen(&c.Spec.Workload, func() HistWL { return wl })
	prop := c.Spec.Property

	oldHeap, oldCard := searcher.DisjunctionHeapTakeover, scorch.OptimizeDisjunctionUnadornedMinChildCardinality
	if cfg.HeapTakeover > 0 {
		searcher.DisjunctionHeapTakeover = cfg.HeapTakeover
	}
	if cfg.UnadornedCard1 > 0 {
		scorch.OptimizeDisjunctionUnadornedMinChildCardinality = uint64(cfg.UnadornedCard1 - 1)
	}
	defer func() {
		searcher.DisjunctionHeapTakeover, scorch.OptimizeDisjunctionUnadornedMinChildCardinality = oldHeap, oldCard
	}()

	env := NewEnv(c, cfg.Sched, cfg.AnalysisQ)
	s := env.S
	defer env.Finish()
	ids := make([]string, cfg.NIDs)
	for i := range ids {
		ids[i] = fmt.Sprintf("d%02d", i)
	}
	keys := []string{"ik0", "ik1", "ik2"}
	mk := func(name string, ic model.IndexCfg) *histClient {
		ic.AsyncCB = "bsim"
		return &histClient{c: c, s: s, name: name, cfg: ic, hc: &cfg, path: filepath.Join(c.Dir, name), m: model.NewMapModel(), ids: ids, keys: keys}
	}
	a, b := mk("A", cfg.A), mk("B", cfg.B)
	queries := 0
	s.Spawn("hist", func() {
		var err error
		if a.idx, err = a.cfg.Create(a.path, model.Mapping(cfg.Nested)); err != nil {
			c.Res.Harness = "create A: " + err.Error()
			a.idx = nil
			return
		}
		if b.idx, err = b.cfg.Create(b.path, model.Mapping(cfg.Nested)); err != nil {
			c.Res.Harness = "create B: " + err.Error()
			b.idx = nil
			return
		}
		var pendingB []HistOp // write ops not yet applied to B
		flushB := func() bool {
			// B applies the same ops under another partition: runs of single ops are fused, batches are split
			for i := 0; i < len(pendingB); {
				op := pendingB[i]
				if op.K == "batch" && len(op.Batch.Docs)+len(op.Batch.Ints) > 1 && (len(op.Batch.Docs)+i)%2 == 0 {
					// split a batch into single-operation calls, in order
					for _, d := range op.Batch.Docs {
						if !b.applyBatch(model.Batch{Docs: []model.DocOp{d}}, "split batch") {
							return false
						}
					}
					for _, in := range op.Batch.Ints {
						if !b.applyBatch(model.Batch{Ints: []model.IntOp{in}}, "split batch") {
							return false
						}
					}
					i++
					continue
				}
				var fused model.Batch
				n := 0
				for i < len(pendingB) && n < wl.FuseB {
					ob := opAsBatch(pendingB[i])
					fused.Docs = append(fused.Docs, ob.Docs...)
					fused.Ints = append(fused.Ints, ob.Ints...)
					i++
					n++
				}
				if !b.applyBatch(fused, fmt.Sprintf("fused batch of %d ops", n)) {
					return false
				}
			}
			pendingB = nil
			return b.verify("re-partitioned history")
		}
		for i, op := range wl.Ops {
			if a.failed || b.failed || c.Res.Harness != "" {
				break
			}
			what := fmt.Sprintf("op %d (%s)", i, op.K)
			switch {
			case isWrite(op.K):
				if op.K == "batch" && op.Batch == nil {
					continue
				}
				if !a.write(op) {
					return
				}
				pendingB = append(pendingB, op)
				a.verify(what)
			case op.K == "forcemerge":
				if adv, _ := a.idx.Advanced(); adv != nil {
					if sc, ok := adv.(*scorch.Scorch); ok {
						if err := sc.ForceMerge(context.Background(), nil); err != nil {
							c.ViolateProp("C01", "forcemerge-error", nil, s.Steps, "%v", err)
						}
						c.Probe("force_merge")
						a.verify(what)
					}
				}
			case op.K == "reopen":
				if a.cfg.InMem || a.cfg.Unsafe {
					continue
				}
				if err := a.idx.Close(); err != nil {
					c.ViolateProp("C01", "close-error", nil, s.Steps, "%v", err)
					return
				}
				if a.idx, err = a.cfg.Open(a.path); err != nil {
					c.ViolateProp("C01", "reopen-error", a.engineSig(), s.Steps, "reopen of A failed: %v", err)
					a.idx = nil
					return
				}
				c.Probe("reopen")
				a.verify(what)
			case op.K == "query" && op.Q != nil:
				if !flushB() {
					return
				}
				queries++
				a.checkQuery(*op.Q, prop)
				b.checkQuery(*op.Q, prop)
			}
		}
		if !a.failed && !b.failed {
			flushB()
		}
	})
	ok := env.RunClients("history")
	if !ok {
		// the client did not finish (deadlock or step cap, already recorded): nothing it reports from here on is
		// meaningful, and closing the indexes under it would only add noise
		c.TolerateLeak = true
		return
	}
	s.Spawn("closer", func() {
		for _, h := range []*histClient{a, b} {
			if h.idx != nil {
				if err := h.idx.Close(); err != nil {
					c.ViolateProp("C01", "close-error", nil, s.Steps, "%s: %v", h.name, err)
				}
			}
		}
	})
	if !env.RunClients("close") || !ok {
		return
	}
	c.Res.Completed = !a.failed && !b.failed
	c.Res.Checks = a.checks + b.checks
	for _, e := range env.AsyncErrors() {
		if strings.Contains(e, "panic") {
			c.ViolateProp("C11", "async-panic", nil, s.Steps, "background panic: %s", e)
		} else {
			c.Violate("async-error", nil, s.Steps, "background error: %s", e)
		}
	}
	for _, p := range s.Panics() {
		c.ViolateProp("C11", "panic", nil, s.Steps, "%s", p)
	}
	bg := s.Points["bolt.committed"] + s.Points["merge.introduced"] + s.Points["memmerge.task.written"]
	c.Res.NonTrivial = c.Res.Checks > 5 && (bg > 1 || cfg.A.Engine != "scorch" || cfg.A.InMem)
	if prop == "C02" || prop == "C20" {
		c.Res.NonTrivial = c.Res.NonTrivial && queries > 0
	}
	c.Res.Summary = fmt.Sprintf("A=%s/%s B=%s/%s ops=%d queries=%d checks=%d steps=%d", cfg.A.Engine, cfg.A.KV, cfg.B.Engine, cfg.B.KV, len(wl.Ops), queries, c.Res.Checks, s.Steps)
}

func init() {
	core.Scenarios["hist"] = histScenario
	core.PropertyScenario["C01"] = "hist"
	core.PropertyScenario["C02"] = "hist"
	core.PropertyScenario["C20"] = "hist"
}
