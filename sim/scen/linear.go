package scen

import (
	"fmt"
	"path/filepath"
	"sort"
	"strings"
	"time"

	"bsim/core"
	"bsim/model"
	"bsim/sched"

	"github.com/anishathalye/porcupine"
	"github.com/blevesearch/bleve/v2"
)

// LinOp is one operation of a client in the shared-id mode of the C04 scenario.
type LinOp struct {
	K     string        `json:"k"` // batch | doc | search | count
	Docs  []model.DocOp `json:"docs,omitempty"`
	ID    string        `json:"id,omitempty"`
	Pause int           `json:"pause,omitempty"`
}

func genLinearWL(g *sched.Rand, cfg ConcCfg) ConcWL {
	wl := ConcWL{}
	nids := 2 + g.Intn(4)
	ids := make([]string, nids)
	for i := range ids {
		ids[i] = fmt.Sprintf("s%d", i)
	}
	nc := 2 + g.Intn(3)
	ver := 0
	total := 0
	for c := 0; c < nc; c++ {
		var ops []LinOp
		n := 4 + g.Intn(8)
		for i := 0; i < n && total < 36; i++ {
			total++
			op := LinOp{Pause: g.Intn(5)}
			switch g.Intn(7) {
			case 0, 1, 2:
				op.K = "batch"
				for j := 0; j < 1+g.Intn(3); j++ {
					id := ids[g.Intn(nids)]
					if g.Intn(4) == 0 {
						op.Docs = append(op.Docs, model.DocOp{ID: id, Del: true})
					} else {
						ver++ // every written value is unique, so each read is attributable to one write
						op.Docs = append(op.Docs, model.DocOp{ID: id, Ver: ver})
					}
				}
			case 3, 4:
				op.K, op.ID = "doc", ids[g.Intn(nids)]
			case 5:
				op.K = "search"
			default:
				op.K = "count"
			}
			ops = append(ops, op)
		}
		wl.Clients = append(wl.Clients, ops)
	}
	return wl
}

type linIn struct {
	K    string
	Docs []model.DocOp
	ID   string
}

// linearModel is the sequential reference: a map id -> version, rendered as a sorted string.
func linearModel() porcupine.Model {
	render := func(m map[string]int) string {
		ks := make([]string, 0, len(m))
		for k := range m {
			ks = append(ks, k)
		}
		sort.Strings(ks)
		var b strings.Builder
		for _, k := range ks {
			fmt.Fprintf(&b, "%s#%d,", k, m[k])
		}
		return b.String()
	}
	parse := func(s string) map[string]int {
		m := map[string]int{}
		for _, p := range strings.Split(s, ",") {
			if p == "" {
				continue
			}
			var id string
			var v int
			i := strings.LastIndex(p, "#")
			id = p[:i]
			fmt.Sscanf(p[i+1:], "%d", &v)
			m[id] = v
		}
		return m
	}
	return porcupine.Model{
		Init: func() interface{} { return "" },
		Step: func(state, input, output interface{}) (bool, interface{}) {
			st := parse(state.(string))
			in := input.(linIn)
			out := output.(string)
			switch in.K {
			case "batch":
				for _, d := range in.Docs {
					if d.Del {
						delete(st, d.ID)
					} else {
						st[d.ID] = d.Ver
					}
				}
				return true, render(st)
			case "doc":
				want := ""
				if v, ok := st[in.ID]; ok {
					want = fmt.Sprintf("%s#%d", in.ID, v)
				}
				return out == want, state
			case "count":
				return out == fmt.Sprint(len(st)), state
			case "search":
				return out == render(st), state
			}
			return false, state
		},
		Equal: func(a, b interface{}) bool { return a.(string) == b.(string) },
		DescribeOperation: func(input, output interface{}) string {
			in := input.(linIn)
			return fmt.Sprintf("%s %v %s -> %q", in.K, in.Docs, in.ID, output)
		},
	}
}

// linearScenario: clients share a handful of ids; the recorded history of Batch / Document / DocCount /
// Search(match_all) calls must be linearizable against a sequential map.
func linearScenario(c *core.Ctx, cfg ConcCfg, wl ConcWL) {
	env := NewEnv(c, cfg.Sched, cfg.AnalysisQ)
	s := env.S
	defer env.Finish()
	path := filepath.Join(c.Dir, "idx")
	icfg := cfg.Index
	icfg.AsyncCB = "bsim"
	var idx bleve.Index
	s.Spawn("setup", func() {
		var err error
		idx, err = icfg.Create(path, model.Mapping(false))
		if err != nil {
			c.Res.Harness = "create: " + err.Error()
		}
	})
	if !env.RunClients("setup") || c.Res.Harness != "" {
		return
	}
	var ops []porcupine.Operation
	var seq int64 // global event sequence number: tasks run one at a time, so this is the real order of events
	upsidedown := cfg.Index.Engine == "upsidedown"
	for ci, cops := range wl.Clients {
		ci, cops := ci, cops
		name := fmt.Sprintf("c%d", ci)
		s.Spawn(name, func() {
			for _, op := range cops {
				for i := 0; i < op.Pause; i++ {
					s.Yield("client-pause")
				}
				if op.K == "count" && upsidedown {
					continue // upsidedown's cached count lags its contents (known finding of the disjoint-id mode)
				}
				in := linIn{K: op.K, Docs: op.Docs, ID: op.ID}
				seq++
				call := seq
				out := ""
				var err error
				switch op.K {
				case "batch":
					var bb *bleve.Batch
					bb, err = BuildBatch(idx, model.Batch{Docs: op.Docs}, false)
					if err == nil {
						err = idx.Batch(bb)
					}
				case "doc":
					d, e := idx.Document(op.ID)
					err = e
					if sd := model.StoredOf(d); sd != nil && len(sd["ver"]) == 1 {
						out = sd["ver"][0]
					}
				case "count":
					n, e := idx.DocCount()
					err, out = e, fmt.Sprint(n)
				case "search":
					req := bleve.NewSearchRequestOptions(bleve.NewMatchAllQuery(), 50, 0, false)
					req.Fields = []string{"ver"}
					res, e := idx.Search(req)
					err = e
					if e == nil {
						var vs []string
						for _, h := range res.Hits {
							vs = append(vs, fmt.Sprint(h.Fields["ver"]))
						}
						sort.Strings(vs)
						for _, v := range vs {
							out += v + ","
						}
					}
				}
				seq++
				if err != nil {
					c.Violate("call-error", nil, s.Steps, "%s %s: %v", name, op.K, err)
					return
				}
				ops = append(ops, porcupine.Operation{ClientId: ci, Input: in, Call: call, Output: out, Return: seq})
			}
		})
	}
	if !env.RunClients("workload") {
		return
	}
	c.Res.Completed = true
	s.Spawn("closer", func() { _ = idx.Close() })
	if !env.RunClients("close") {
		return
	}
	for _, p := range s.Panics() {
		c.ViolateProp("C11", "panic", nil, s.Steps, "%s", p)
	}
	c.Res.Checks = len(ops)
	c.Probe("linearizability_history")
	c.Res.NonTrivial = len(ops) > 5
	c.Res.Summary = fmt.Sprintf("shared-id mode engine=%s/%s clients=%d operations=%d steps=%d", cfg.Index.Engine, cfg.Index.KV, len(wl.Clients), len(ops), s.Steps)
	steps := s.Steps
	c.After = append(c.After, func() {
		res, info := porcupine.CheckOperationsVerbose(linearModel(), ops, 20*time.Second)
		_ = info
		switch res {
		case porcupine.Illegal:
			var hist []string
			for _, o := range ops {
				in := o.Input.(linIn)
				hist = append(hist, fmt.Sprintf("  c%d [%d,%d] %s %v%s -> %q", o.ClientId, o.Call, o.Return, in.K, in.Docs, in.ID, o.Output))
			}
			sort.Strings(hist)
			c.Violate("not-linearizable", map[string]string{"engine": cfg.Index.Engine}, steps, "the history of %d operations on shared ids has no linearization against a sequential map:\n%s", len(ops), strings.Join(hist, "\n"))
		case porcupine.Unknown:
			c.Probe("linearizability_check_timed_out") // inconclusive, never reported
		}
	})
}
