package scen

import (
	"context"
	"encoding/json"
	"fmt"
	"strings"
	"time"

	"bsim/core"
	"bsim/model"
	"bsim/qeval"
	"bsim/sched"

	"github.com/blevesearch/bleve/v2"
)

// AliasCfg configures the alias scenario (C09).
type AliasCfg struct {
	Sched     sched.Config `json:"sched"`
	NDocs     int          `json:"ndocs"`
	NShards   int          `json:"nshards"`
	Engine    string       `json:"engine"`         // engine of the shards: scorch | upsidedown
	Tree      [][]int      `json:"tree,omitempty"` // groups of shard numbers forming inner aliases (empty = flat)
	Wrap      bool         `json:"wrap,omitempty"` // the whole alias is wrapped in a single-member alias
	Delays    []int        `json:"delays"`         // per shard: simulated delay in ms before answering (0 = none)
	AnalysisQ int          `json:"analysis_q"`
}

// AliasWL is the workload: a partition of the corpus and the requests.
type AliasWL struct {
	Assign []int `json:"assign"` // document i lives in shard Assign[i]
	Vers   []int `json:"vers"`   // version (content) of document i
	Reqs   []Req `json:"reqs"`
	Walks  []Req `json:"walks"` // SearchAfter / SearchBefore walks (Size = page size)
}

var aliasSorts = [][]string{{"num", "_id"}, {"-num", "-_id"}, {"kw", "_id"}, {"-kw", "num", "_id"}, {"date", "-_id"}, {"_id"}, {"-_id"}, {"tags:min", "_id"}, {"-tags:max", "_id"}, {"flag", "-num", "_id"}, {"num#n", "_id"}, {"-num#n", "kw", "_id"}, {"date#d", "_id"}, {"-date#d", "-_id"}}

func genAlias(c *core.Ctx) (AliasCfg, AliasWL) {
	g := c.Gen
	cfg := AliasCfg{Sched: genSchedCfg(g, false), NDocs: 8 + g.Intn(33), NShards: 1 + g.Intn(5), Engine: "scorch", AnalysisQ: 1 + g.Intn(2)}
	if g.Intn(4) == 0 {
		cfg.Engine = "upsidedown"
	}
	cfg.Sched.TimeEvery = 0
	for i := 0; i < cfg.NShards; i++ {
		cfg.Delays = append(cfg.Delays, []int{0, 0, 1, 5, 50}[g.Intn(5)])
	}
	if cfg.NShards >= 3 && g.Intn(2) == 0 {
		cut := 1 + g.Intn(cfg.NShards-1)
		var l, r []int
		for i := 0; i < cfg.NShards; i++ {
			if i < cut {
				l = append(l, i)
			} else {
				r = append(r, i)
			}
		}
		cfg.Tree = [][]int{l, r}
	}
	cfg.Wrap = g.Intn(4) == 0
	wl := AliasWL{}
	skew := g.Intn(10) < 3
	empty := -1
	if cfg.NShards > 1 && g.Intn(10) < 3 {
		empty = g.Intn(cfg.NShards)
	}
	ids := make([]string, cfg.NDocs)
	for i := 0; i < cfg.NDocs; i++ {
		ids[i] = fmt.Sprintf("d%02d", i)
		sh := g.Intn(cfg.NShards)
		if skew && g.Intn(4) != 0 {
			sh = 0
		}
		if sh == empty {
			sh = (sh + 1) % cfg.NShards
		}
		wl.Assign = append(wl.Assign, sh)
		wl.Vers = append(wl.Vers, 1+g.Intn(1000))
	}
	nreq := 6 + g.Intn(10)
	for i := 0; i < nreq; i++ {
		r := Req{Q: qeval.Gen(g, 2, ids, true), Sort: aliasSorts[g.Intn(len(aliasSorts))], Size: 1 + g.Intn(9), Fields: g.Intn(2) == 0}
		if g.Intn(2) == 0 {
			r.Facets = 10
		}
		wl.Reqs = append(wl.Reqs, r)
	}
	for i := 0; i < 2+g.Intn(3); i++ {
		wl.Walks = append(wl.Walks, Req{Q: qeval.Gen(g, 1, ids, true), Sort: aliasSorts[g.Intn(len(aliasSorts))], Size: 2 + g.Intn(6)})
	}
	return cfg, wl
}

// simIndex is a shard as seen through the "network": it answers after a simulated delay, at a moment the
// scheduler chooses.
type bIndex = bleve.Index

type simIndex struct {
	bIndex
	delay time.Duration
	s     *sched.Sched
}

func (x *simIndex) SearchInContext(ctx context.Context, req *bleve.SearchRequest) (*bleve.SearchResult, error) {
	x.s.Yield("shard-request-arrives")
	if x.delay > 0 {
		// delays are distinct per shard (see below) so that no two members wake at the same simulated instant,
		// and the member parks again right after waking: woken tasks never run real code side by side
		time.Sleep(x.delay)
		x.s.Yield("shard-delay-over")
	}
	res, err := x.bIndex.SearchInContext(ctx, req)
	x.s.Yield("shard-response-leaves")
	return res, err
}

func (x *simIndex) Search(req *bleve.SearchRequest) (*bleve.SearchResult, error) {
	return x.SearchInContext(context.Background(), req)
}

type aliasView struct {
	Total  uint64
	Hits   []hitView
	Facets string
}

func aliasViewOf(res *bleve.SearchResult) aliasView {
	v := aliasView{Total: res.Total}
	for _, h := range res.Hits {
		hv := hitView{ID: h.ID, Sort: h.Sort}
		if len(h.Fields) > 0 {
			b, _ := json.Marshal(h.Fields)
			hv.Fields = string(b)
		}
		v.Hits = append(v.Hits, hv)
	}
	if len(res.Facets) > 0 {
		b, _ := json.Marshal(res.Facets)
		v.Facets = string(b)
	}
	return v
}

func (a aliasView) diff(b aliasView) string {
	if a.Total != b.Total {
		return fmt.Sprintf("Total %d (single) vs %d (alias)", a.Total, b.Total)
	}
	if len(a.Hits) != len(b.Hits) {
		return fmt.Sprintf("%d hits %v (single) vs %d hits %v (alias)", len(a.Hits), idsOf(a.Hits), len(b.Hits), idsOf(b.Hits))
	}
	for i := range a.Hits {
		x, y := a.Hits[i], b.Hits[i]
		if x.ID != y.ID {
			return fmt.Sprintf("position %d: %s (single) vs %s (alias); single %v alias %v", i, x.ID, y.ID, idsOf(a.Hits), idsOf(b.Hits))
		}
		if strings.Join(x.Sort, "\x00") != strings.Join(y.Sort, "\x00") {
			return fmt.Sprintf("hit %s: sort keys %q (single) vs %q (alias)", x.ID, x.Sort, y.Sort)
		}
		if x.Fields != y.Fields {
			return fmt.Sprintf("hit %s: fields %s (single) vs %s (alias)", x.ID, x.Fields, y.Fields)
		}
	}
	if a.Facets != b.Facets {
		return fmt.Sprintf("facets\n    %s (single)\n vs %s (alias)", a.Facets, b.Facets)
	}
	return ""
}

func aliasScenario(c *core.Ctx) {
	var cfg AliasCfg
	var wl AliasWL
	if len(c.Spec.Config) == 0 || len(c.Spec.Workload) == 0 {
		cfg, wl = genAlias(c)
		c.Spec.Config, c.Spec.Workload = nil, nil
	}
	cfg = core.LoadOrGen(&c.Spec.Config, func() AliasCfg { return cfg })
	wl = core.LoadOrGen(&c.Spec.Workload, func() AliasWL { return wl })
	if cfg.NShards < 1 {
		cfg.NShards = 1
	}
	env := NewEnv(c, cfg.Sched, cfg.AnalysisQ)
	s := env.S
	defer env.Finish()
	var single bleve.Index
	var shards []bleve.Index
	var alias bleve.Index
	compared := 0
	s.Spawn("alias", func() {
		mk := func() bleve.Index {
			ic := model.IndexCfg{Engine: "scorch", InMem: true, MinSegsMem: -1}
			if cfg.Engine == "upsidedown" {
				ic = udcCfg("gtreap")
			}
			idx, err := ic.Create("", model.Mapping(false))
			if err != nil {
				c.Res.Harness = "create: " + err.Error()
				return nil
			}
			return idx
		}
		if single = mk(); single == nil {
			return
		}
		for i := 0; i < cfg.NShards; i++ {
			sh := mk()
			if sh == nil {
				return
			}
			shards = append(shards, sh)
		}
		// index in batches of a few documents so that shards have several segments
		sb := single.NewBatch()
		shb := make([]*bleve.Batch, cfg.NShards)
		for i := range shb {
			shb[i] = shards[i].NewBatch()
		}
		flush := func() bool {
			if err := single.Batch(sb); err != nil {
				c.Res.Harness = "batch: " + err.Error()
				return false
			}
			sb = single.NewBatch()
			for i := range shb {
				if shb[i].Size() > 0 {
					if err := shards[i].Batch(shb[i]); err != nil {
						c.Res.Harness = "batch: " + err.Error()
						return false
					}
					shb[i] = shards[i].NewBatch()
				}
			}
			return true
		}
		for i := 0; i < cfg.NDocs && i < len(wl.Assign); i++ {
			id := fmt.Sprintf("d%02d", i)
			in := model.MakeDoc(id, wl.Vers[i], true).Input()
			sb.Index(id, in)
			shb[wl.Assign[i]%cfg.NShards].Index(id, in)
			if i%7 == 6 {
				if !flush() {
					return
				}
			}
		}
		if !flush() {
			return
		}
		wrapped := make([]bleve.Index, cfg.NShards)
		for i, sh := range shards {
			d := 0
			if i < len(cfg.Delays) {
				d = cfg.Delays[i]
			}
			dd := time.Duration(d) * time.Millisecond
			if dd > 0 {
				dd += time.Duration(i+1) * time.Microsecond
			}
			wrapped[i] = &simIndex{bIndex: sh, delay: dd, s: s}
		}
		if len(cfg.Tree) > 0 {
			var inner []bleve.Index
			used := map[int]bool{}
			for _, grp := range cfg.Tree {
				var ms []bleve.Index
				for _, k := range grp {
					if k >= 0 && k < cfg.NShards && !used[k] {
						used[k] = true
						ms = append(ms, wrapped[k])
					}
				}
				if len(ms) > 0 {
					inner = append(inner, bleve.NewIndexAlias(ms...))
				}
			}
			for k := range wrapped {
				if !used[k] {
					inner = append(inner, wrapped[k])
				}
			}
			alias = bleve.NewIndexAlias(inner...)
		} else {
			alias = bleve.NewIndexAlias(wrapped...)
		}
		if cfg.Wrap {
			alias = bleve.NewIndexAlias(alias)
		}
		both := func(what string, mkreq func() *bleve.SearchRequest) (aliasView, aliasView, bool) {
			ra, err1 := single.Search(mkreq())
			rb, err2 := alias.Search(mkreq())
			if err1 != nil || err2 != nil {
				if (err1 == nil) != (err2 == nil) {
					c.Violate("error-differs", nil, s.Steps, "%s: single err=%v alias err=%v", what, err1, err2)
				}
				return aliasView{}, aliasView{}, false
			}
			compared++
			return aliasViewOf(ra), aliasViewOf(rb), true
		}
		for _, r := range wl.Reqs {
			// every page until exhaustion
			for from := 0; from <= cfg.NDocs; from += max(1, r.Size) {
				rr := r
				rr.From = from
				a, b, ok := both(rr.String(), func() *bleve.SearchRequest { return rr.Bleve() })
				if !ok {
					break
				}
				if d := a.diff(b); d != "" {
					c.Violate("alias-differs-from-single-index", map[string]string{"kind": "page"}, s.Steps, "request %s\n  %s", rr, d)
					break
				}
				if len(a.Hits) == 0 {
					break
				}
			}
		}
		for _, r := range wl.Walks {
			// forward walk with SearchAfter, then back with SearchBefore from the last hit
			var after []string
			var seq []hitView
			for page := 0; page < cfg.NDocs+2; page++ {
				a, b, ok := both(r.String(), func() *bleve.SearchRequest {
					req := r.Bleve()
					if after != nil {
						req.SetSearchAfter(after)
					}
					return req
				})
				if !ok {
					break
				}
				if d := a.diff(b); d != "" {
					c.Violate("alias-differs-from-single-index", map[string]string{"kind": "search-after"}, s.Steps, "walk %s after %q\n  %s", r, after, d)
					break
				}
				if len(a.Hits) == 0 {
					break
				}
				seq = append(seq, a.Hits...)
				after = r.AfterKeys(a.Hits[len(a.Hits)-1].Sort)
				if len(seq) > cfg.NDocs+5 {
					// an explicitly typed sort cannot page past a document that lacks the field (the "missing"
					// marker does not decode to a number or date, so the next page starts at 0 again): single index
					// and alias agree on that, and it is not C09's subject
					c.Probe("typed_walk_stalled_on_missing_value")
					break
				}
			}
			if len(seq) > 1 {
				before := r.AfterKeys(seq[len(seq)-1].Sort)
				a, b, ok := both(r.String(), func() *bleve.SearchRequest {
					req := r.Bleve()
					req.SetSearchBefore(before)
					return req
				})
				if ok {
					if d := a.diff(b); d != "" {
						c.Violate("alias-differs-from-single-index", map[string]string{"kind": "search-before"}, s.Steps, "walk %s before %q\n  %s", r, before, d)
					}
				}
			}
		}
	})
	ok := env.RunClients("alias")
	if !ok {
		// the client did not finish (deadlock or step cap, already recorded): nothing it reports from here on is
		// meaningful, and closing the indexes under it would only add noise
		c.TolerateLeak = true
		return
	}
	s.Spawn("closer", func() {
		if single != nil {
			_ = single.Close()
		}
		for _, sh := range shards {
			_ = sh.Close()
		}
	})
	if !env.RunClients("close") || !ok {
		return
	}
	c.Res.Completed = true
	c.Res.Checks = compared
	for _, p := range s.Panics() {
		c.ViolateProp("C11", "panic", nil, s.Steps, "%s", p)
	}
	c.Res.NonTrivial = compared > 0 && cfg.NShards > 1
	c.Res.Summary = fmt.Sprintf("shards=%d docs=%d engine=%s tree=%v requests=%d walks=%d comparisons=%d steps=%d", cfg.NShards, cfg.NDocs, cfg.Engine, cfg.Tree, len(wl.Reqs), len(wl.Walks), compared, s.Steps)
}

func init() {
	core.Scenarios["alias"] = aliasScenario
	core.PropertyScenario["C09"] = "alias"
}
