package scen

import (
	"context"
	"fmt"
	"os"
	"path/filepath"
	"sort"
	"strconv"
	"strings"
	"testing/synctest"

	"bsim/core"
	"bsim/model"
	"bsim/sched"

	"github.com/blevesearch/bleve/v2"
	"github.com/blevesearch/bleve/v2/index/scorch"
)

// CrashCfg configures the crash scenario (C03, C12a).
type CrashCfg struct {
	Index      model.IndexCfg `json:"index"`
	Sched      sched.Config   `json:"sched"`
	NDocs      int            `json:"ndocs"`
	CrashEvery int            `json:"crash_every"` // an image at 1 in N ordinary steps
	HotEvery   int            `json:"hot_every"`   // an image at 1 in N steps that follow a durable-state label
	MaxImages  int            `json:"max_images"`
	Mutilate   bool           `json:"mutilate"`
	AnalysisQ  int            `json:"analysis_q"`
	IOErr      *IOErrCfg      `json:"ioerr,omitempty"`
}

// CrashWL is the workload of the crash scenario.
type CrashWL struct {
	Writers     [][]model.Batch `json:"writers"`
	ForceMerges int             `json:"force_merges,omitempty"`
	Searches    int             `json:"searches,omitempty"`
}

func genWriterBatches(g *sched.Rand, w, ndocs, n int) []model.Batch {
	var out []model.Batch
	ver := 0
	for k := 0; k < n; k++ {
		var b model.Batch
		nops := 1 + g.Intn(4)
		for i := 0; i < nops; i++ {
			id := model.WriterID(w, g.Intn(ndocs))
			if g.Intn(10) < 3 {
				b.Docs = append(b.Docs, model.DocOp{ID: id, Del: true})
			} else {
				ver++
				b.Docs = append(b.Docs, model.DocOp{ID: id, Ver: ver})
			}
		}
		if g.Intn(12) == 0 {
			b.Docs = nil // marker-only batch (internal ops only)
		}
		out = append(out, b)
	}
	return out
}

func genSchedCfg(g *sched.Rand, background bool) sched.Config {
	sc := sched.Config{Policy: sched.PolUniform}
	switch g.Intn(10) {
	case 0, 1:
		sc.Policy = sched.PolPCT
		sc.PCTDepth = 1 + g.Intn(3)
	case 2, 3:
		sc.Policy = sched.PolBurst
		sc.Burst = 2 + g.Intn(12)
	case 4, 5, 6:
		if background {
			sc.Policy = sched.PolStarve
			sc.StarveRole = []string{"persisterLoop", "mergerLoop", "introducerLoop", "persisterLoop"}[g.Intn(4)]
		}
	}
	if g.Intn(3) == 0 {
		sc.TimeEvery = 10 + g.Intn(60)
	}
	// half of the runs also deschedule a task right after it released a lock (one release in two to five)
	if g.Intn(2) == 0 {
		sc.UnlockYield = 2 + g.Intn(4)
	}
	return sc
}

func genCrash(c *core.Ctx) (CrashCfg, CrashWL) {
	g := c.Gen
	cfg := CrashCfg{Index: model.GenIndexCfg(g), Sched: genSchedCfg(g, true), NDocs: 3 + g.Intn(3),
		CrashEvery: 40 + g.Intn(120), HotEvery: 1 + g.Intn(3), MaxImages: 18, Mutilate: g.Intn(4) != 0, AnalysisQ: 1 + g.Intn(3)}
	// unsafe batches let a writer run ahead of the persister, which is what piles up unpersisted segments and lets
	// batches land while an in-memory merge is running
	cfg.Index.Unsafe = g.Intn(2) == 0
	if g.Intn(10) < 3 {
		cfg.IOErr = genIOErr(g)
	}
	nw := 1 + g.Intn(3)
	wl := CrashWL{}
	for w := 0; w < nw; w++ {
		n := 4 + g.Intn(9)
		if c.Quick {
			n = 3 + g.Intn(6)
		}
		wl.Writers = append(wl.Writers, genWriterBatches(g, w, cfg.NDocs, n))
	}
	if g.Intn(2) == 0 {
		wl.ForceMerges = 1 + g.Intn(2)
	}
	wl.Searches = g.Intn(4)
	return cfg, wl
}

// hot labels: durable state has just changed, or is about to
var hotLabels = []string{"merge.task.written", "merge.task.opened", "memmerge.task.written", "memmerge.task.opened", "snapshot.segment",
	"bolt.precommit", "bolt.committed", "bolt.synced", "waiters.released", "callbacks.fired", "purge.bolt.done", "purge.bolt.pretx", "purge.zap.removed",
	"purge.zap.listed", "ineligible.cleared", "merge.introduced", "merge.task.marked", "memmerge.task.marked"}

func isHot(point string) bool {
	for _, h := range hotLabels {
		if point == h {
			return true
		}
	}
	// generated yields that follow an introduction being applied / a merge being handed over
	return strings.HasPrefix(point, "post:introducer.go") || strings.HasPrefix(point, "post:merge.go")
}

// writerTrack records invocation / acknowledgement steps of one writer's batches.
type writerTrack struct {
	invoked, acked int   // number of batches invoked / acknowledged (call returned nil; or persisted callback fired in unsafe mode)
	invStep        []int // scheduler step at which batch k (1-based) was invoked
	ackStep        []int // scheduler step at which batch k was acknowledged (0 = not yet)
	retStep        []int // scheduler step at which the call for batch k returned nil (0 = not yet)
	failed         []bool
}

func crashScenario(c *core.Ctx) {
	var cfg CrashCfg
	var wl CrashWL
	if len(c.Spec.Config) == 0 || len(c.Spec.Workload) == 0 {
		cfg, wl = genCrash(c)
		c.Spec.Config, c.Spec.Workload = nil, nil
	}
	cfg = core.LoadOrGen(&c.Spec.Config, func() CrashCfg { return cfg })
	wl = core.LoadOrGen(&c.Spec.Workload, func() CrashWL { return wl })

	env := NewEnv(c, cfg.Sched, cfg.AnalysisQ)
	s := env.S
	defer env.Finish()
	path := filepath.Join(c.Dir, "idx")
	store := filepath.Join(path, "store")
	icfg := cfg.Index
	icfg.AsyncCB, icfg.EventCB = "bsim", "bsim"
	var iof *ioFaults
	if cfg.IOErr != nil {
		iof = installIOFaults(c, cfg.IOErr)
		defer iof.uninstall()
		icfg.SegType, icfg.SegVer = simzapType, 0 // the wrapper plugin is zap v17
		env.Tainted = func() bool { return iof.firedCount() > 0 }
	}

	var idx bleve.Index
	s.Spawn("setup", func() {
		var err error
		idx, err = icfg.Create(path, model.Mapping(false))
		if err != nil {
			c.Res.Harness = "create: " + err.Error()
		}
	})
	if !env.RunClients("setup") || c.Res.Harness != "" {
		if c.Res.Harness == "" {
			c.Res.Harness = "setup did not finish"
		}
		return
	}
	// creation must have settled before crash points are enabled (in unsafe mode New() may return before
	// the mapping is persisted; index creation is outside C03's wording)
	if err := s.Quiesce(2 * 1e9); err != nil {
		c.Res.Harness = "settle after create: " + err.Error()
		return
	}

	nw := len(wl.Writers)
	prefixes := make([]*model.WriterPrefixes, nw)
	tracks := make([]*writerTrack, nw)
	for w := range wl.Writers {
		prefixes[w] = model.NewWriterPrefixes(w, cfg.NDocs, wl.Writers[w])
		tracks[w] = &writerTrack{invStep: make([]int, len(wl.Writers[w])+1), ackStep: make([]int, len(wl.Writers[w])+1), retStep: make([]int, len(wl.Writers[w])+1), failed: make([]bool, len(wl.Writers[w])+1)}
	}
	rc := &recoverer{c: c, cfg: cfg, prefixes: prefixes, tracks: tracks, store: store, path: path, iof: iof}

	images := 0
	perLabel := map[string]int{}
	s.OnStep(func(si *sched.StepInfo) {
		if images >= cfg.MaxImages {
			return
		}
		// the image budget of a run is spread over the kinds of step: at most two images per named durable-state
		// step (so that every kind is reached in every run that gets there, late ones included) and a few at
		// ordinary steps
		label, every, limit := "other", cfg.CrashEvery, 4
		if isHot(si.Point) {
			label, every, limit = si.Point, cfg.HotEvery, 2
			if strings.HasPrefix(label, "post:") {
				label, limit = "after-handover", 3
			}
		}
		if perLabel[label] >= limit || c.Tape.Intn(every) != 0 {
			return
		}
		perLabel[label]++
		images++
		c.Point("image@" + label)
		c.Fault("crash_image")
		rc.check(si.Step, fmt.Sprintf("crash at step %d before %s@%s", si.Step, si.Name, si.Point), false)
	})

	for w := range wl.Writers {
		w := w
		s.Spawn(fmt.Sprintf("w%d", w), func() {
			tr := tracks[w]
			for k, mb := range wl.Writers[w] {
				seq := k + 1
				mb.Ints = append(append([]model.IntOp(nil), mb.Ints...), model.IntOp{Key: model.MarkerKey(w), Val: strconv.Itoa(seq)})
				bb, err := BuildBatch(idx, mb, false)
				if err != nil {
					c.Res.Harness = "build batch: " + err.Error()
					return
				}
				if cfg.Index.Unsafe {
					bb.SetPersistedCallback(func(err error) {
						if err == nil {
							// callbacks fire in order; a later batch's callback implies the earlier ones are persisted too
							if seq > tr.acked {
								tr.acked = seq
							}
							tr.ackStep[seq] = s.Steps
						}
					})
				}
				tr.invoked = seq
				tr.invStep[seq] = s.Steps
				err = idx.Batch(bb)
				if err != nil {
					tr.failed[seq] = true
					if iof == nil {
						c.Violate("batch-error", nil, s.Steps, "writer %d batch %d: Batch returned %v in a fault-free run", w, seq, err)
						return
					}
					// injected fault: the batch is unacknowledged - it may or may not be contained. The
					// marker sequence stays usable: later batches carry their own marker.
					continue
				}
				tr.retStep[seq] = s.Steps
				if !cfg.Index.Unsafe {
					tr.acked = seq
					tr.ackStep[seq] = s.Steps
				}
			}
		})
	}
	if wl.ForceMerges > 0 {
		s.Spawn("forcemerge", func() {
			adv, _ := idx.Advanced()
			sc, ok := adv.(*scorch.Scorch)
			if !ok {
				return
			}
			for i := 0; i < wl.ForceMerges; i++ {
				for j := 0; j < 6; j++ {
					s.Yield("forcemerge-wait")
				}
				_ = sc.ForceMerge(context.Background(), nil)
			}
		})
	}
	if wl.Searches > 0 {
		s.Spawn("searcher", func() {
			for i := 0; i < wl.Searches; i++ {
				req := bleve.NewSearchRequest(bleve.NewPrefixQuery("ca"))
				req.Fields = []string{"ver"}
				_, _ = idx.Search(req)
				s.Yield("searcher-pause")
			}
		})
	}
	finishCrash := func() {
		for _, e := range env.AsyncErrors() {
			if !strings.HasPrefix(e, store+"|") {
				continue // reported by a recovery instance opened on an image
			}
			switch {
			case env.Tainted != nil && env.Tainted():
				c.Probe("async_error_after_injected_io_fault")
			case strings.Contains(e, "panic"):
				c.ViolateProp("C11", "async-panic", nil, s.Steps, "background panic: %s", e)
			default:
				c.Violate("async-error", nil, s.Steps, "background error in a fault-free run: %s", e)
			}
		}
		for _, p := range s.Panics() {
			if env.Tainted != nil && env.Tainted() {
				c.Probe("panic_after_injected_io_fault")
				continue
			}
			c.ViolateProp("C11", "panic", nil, s.Steps, "%s", p)
		}
		c.Res.NonTrivial = images > 0 && (s.Points["bolt.committed"] > 1)
		c.Res.Summary = fmt.Sprintf("writers=%d images=%d steps=%d unsafe=%v ioerr=%v", nw, images, s.Steps, cfg.Index.Unsafe, iof != nil)
	}
	defer finishCrash()
	if !env.RunClients("workload") {
		return
	}
	c.Res.Completed = true
	if iof != nil && len(s.Panics()) == 0 {
		// faults stop; a further batch must be acknowledged within the step budget (bounded liveness)
		iof.stop()
		before := s.Steps
		okc := false
		s.Spawn("after-faults", func() {
			bb := idx.NewBatch()
			bb.SetInternal([]byte("after-faults"), []byte("1"))
			if err := idx.Batch(bb); err != nil {
				c.Violate("no-progress-after-faults", nil, s.Steps, "batch after faults stopped failed: %v", err)
				return
			}
			okc = true
		})
		if !env.RunClients("after-faults") {
			return
		}
		if okc && s.Steps-before > 20000 {
			c.Violate("no-progress-after-faults", nil, s.Steps, "batch after faults stopped needed %d steps", s.Steps-before)
		}
	}
	// let background work settle, still taking images
	if err := s.Quiesce(3 * 1e9); err != nil {
		if _, ok := err.(*sched.ErrSteps); ok {
			c.Res.Harness = "settle: " + err.Error()
			return
		}
	}
	s.ClearHooks()
	// clean Close, then the same recovery check with everything acknowledged (unsafe mode: Close does not
	// promise to persist what was never acknowledged, so the same bounds apply)
	s.Spawn("closer", func() {
		if err := idx.Close(); err != nil {
			c.Violate("close-error", nil, s.Steps, "Close: %v", err)
		}
	})
	if !env.RunClients("close") {
		return
	}
	c.Point("image@after-close")
	rc.check(s.Steps, "after clean Close", true)

}

// recoverer runs the recovery check on crash images.
type recoverer struct {
	c        *core.Ctx
	cfg      CrashCfg
	prefixes []*model.WriterPrefixes
	tracks   []*writerTrack
	store    string
	path     string
	iof      *ioFaults
	n        int
}

func (r *recoverer) allIDs() (ids, keys []string) {
	for w := range r.prefixes {
		for d := 0; d < r.cfg.NDocs; d++ {
			ids = append(ids, model.WriterID(w, d))
		}
		keys = append(keys, model.MarkerKey(w))
	}
	return
}

// mutilate damages files of the image that no committed snapshot names: the crash model allows in-flight
// files to be truncated or to hold garbage.
func (r *recoverer) mutilate(imgStore string, snaps []BoltSnapshot) {
	named := map[string]bool{}
	for _, sn := range snaps {
		for _, f := range sn.Files {
			named[f] = true
		}
	}
	t := r.c.Tape
	var maxID uint64
	for _, f := range ListZap(imgStore) {
		if id, err := strconv.ParseUint(strings.TrimSuffix(f, ".zap"), 16, 64); err == nil && id > maxID {
			maxID = id
		}
		if named[f] {
			continue
		}
		r.c.Probe("image_with_unreferenced_zap")
		p := filepath.Join(imgStore, f)
		switch t.Intn(4) {
		case 0: // intact
		case 1:
			st, err := os.Stat(p)
			if err == nil {
				_ = os.Truncate(p, int64(t.Intn(int(st.Size())+1)))
				r.c.Fault("unreferenced_file_truncated")
			}
		case 2:
			st, err := os.Stat(p)
			if err == nil {
				n := int(st.Size())
				buf := make([]byte, n)
				x := uint32(t.Intn(1 << 30))
				for i := range buf {
					x = x*1664525 + 1013904223
					buf[i] = byte(x >> 24)
				}
				_ = os.WriteFile(p, buf, 0o600)
				r.c.Fault("unreferenced_file_garbage")
			}
		case 3:
			_ = os.Remove(p)
			r.c.Fault("unreferenced_file_lost")
		}
	}
	if t.Intn(4) == 0 {
		// a stray in-flight file with a higher id (a merge output cut short)
		p := filepath.Join(imgStore, fmt.Sprintf("%012x.zap", maxID+1+uint64(t.Intn(3))))
		_ = os.WriteFile(p, []byte("partial"), 0o600)
		r.c.Fault("stray_partial_file")
	}
}

func (r *recoverer) check(step int, what string, afterClose bool) {
	c := r.c
	r.n++
	img := filepath.Join(c.Dir, fmt.Sprintf("img%d", r.n))
	defer os.RemoveAll(img)
	// acknowledgement / invocation bounds at the crash instant
	nw := len(r.tracks)
	acked := make([]int, nw)
	invoked := make([]int, nw)
	for w, tr := range r.tracks {
		acked[w], invoked[w] = tr.acked, tr.invoked
	}
	if err := CopyDir(r.path, img); err != nil {
		c.Res.Harness = "copy image: " + err.Error()
		return
	}
	imgStore := filepath.Join(img, "store")
	snaps, err := ReadRootBolt(imgStore)
	if err != nil {
		c.Violate("image-rootbolt-unreadable", nil, step, "%s: root.bolt of the image cannot be read: %v", what, err)
		return
	}
	// C12(a): every file named by a snapshot recorded in the metadata store exists
	have := map[string]bool{}
	for _, f := range ListZap(imgStore) {
		have[f] = true
	}
	for _, sn := range snaps {
		for _, f := range sn.Files {
			if !have[f] {
				c.ViolateProp("C12", "needed-file-missing", map[string]string{"holder": "bolt-snapshot"}, step,
					"%s: snapshot epoch %d in root.bolt names %s which is not in the directory (have %v)", what, sn.Epoch, f, ListZap(imgStore))
			}
		}
	}
	if len(snaps) > 0 && len(ListZap(imgStore)) > len(snaps[len(snaps)-1].Files) {
		c.Probe("image_with_extra_zap")
	}
	if r.cfg.Mutilate && !afterClose {
		r.mutilate(imgStore, snaps)
	}
	c.Res.Checks++
	ix, err := model.RecoveryCfg().Open(img)
	if err != nil {
		c.Violate("reopen-failed", nil, step, "%s: bleve.Open on the crash image failed: %v (zap files %v, snapshots %+v)", what, err, ListZap(imgStore), snaps)
		return
	}
	closed := false
	defer func() {
		if !closed {
			_ = ix.Close()
		}
	}()
	ids, keys := r.allIDs()
	st, err := ReadState(ix, ids, keys)
	if err != nil {
		c.Violate("reopen-unreadable", nil, step, "%s: reading the reopened index failed: %v", what, err)
		return
	}
	// no silent fall-back: the markers that loaded are those of the newest snapshot bucket
	if len(snaps) > 0 {
		newest := snaps[len(snaps)-1]
		for _, k := range keys {
			if newest.Internal[k] != st.Ints[k] {
				c.Violate("fell-back-to-older-snapshot", nil, step, "%s: newest bucket (epoch %d) has %s=%q but the reopened index has %q", what, newest.Epoch, k, newest.Internal[k], st.Ints[k])
			}
		}
	}
	ks := make([]int, nw)
	okAll := true
	for w, wp := range r.prefixes {
		o := model.WriterObs{Marker: st.Ints[model.MarkerKey(w)], Vers: map[string]string{}}
		for d := 0; d < r.cfg.NDocs; d++ {
			id := model.WriterID(w, d)
			if sd := st.Docs[id]; sd != nil {
				if len(sd["ver"]) == 1 {
					o.Vers[id] = sd["ver"][0]
				} else {
					o.Vers[id] = fmt.Sprint("?", sd)
				}
			}
		}
		k, err := wp.Decompose(o)
		ks[w] = k
		if err != nil {
			okAll = false
			c.Violate("partial-batch", nil, step, "%s: %v", what, err)
			continue
		}
		// a batch whose call failed under injected faults is "unacknowledged": it may or may not be there,
		// but the marker of a *later acknowledged* batch must not be older than the acknowledgement
		if k < acked[w] {
			okAll = false
			c.Violate("acked-batch-lost", map[string]string{"mode": map[bool]string{true: "unsafe", false: "safe"}[r.cfg.Index.Unsafe]}, step,
				"%s: writer %d recovered %d batches but %d were acknowledged", what, w, k, acked[w])
		}
		if k > invoked[w] {
			okAll = false
			c.Violate("future-batch", nil, step, "%s: writer %d recovered %d batches but only %d were invoked", what, w, k, invoked[w])
		}
	}
	if okAll {
		// submission order across writers: a batch that is present implies every batch whose call had returned
		// before it was submitted (in unsafe mode too: the persisted state is a prefix in submission order)
		for b := 0; b < nw; b++ {
			for j := 1; j <= ks[b]; j++ {
				inv := r.tracks[b].invStep[j]
				for a := 0; a < nw; a++ {
					if a == b {
						continue
					}
					need := 0
					for i := 1; i <= r.tracks[a].invoked; i++ {
						if rs := r.tracks[a].retStep[i]; rs != 0 && rs < inv {
							need = i
						}
					}
					if ks[a] < need {
						c.Violate("order-violated", nil, step, "%s: writer %d batch %d is present but writer %d batch %d, returned before it was submitted, is not (has %d)", what, b, j, a, need, ks[a])
					}
				}
			}
		}
		// the rest of the model (count, match-all, doc-id search, stored fields) for the decomposed state
		m := model.NewMapModel()
		for w, wp := range r.prefixes {
			for id, v := range wp.States[ks[w]].Docs {
				m.Docs[id] = v
			}
			for k2, v := range wp.States[ks[w]].Ints {
				m.Ints[k2] = v
			}
		}
		if bad := CheckState(st, m, ids, keys, false); len(bad) > 0 {
			c.Violate("recovered-state-inconsistent", nil, step, "%s: %s", what, strings.Join(bad, "; "))
			return
		}
		// the reopened index accepts further writes and survives a second reopen
		rid := []string{"r-d0", "r-d1", "r-d2"}
		for i := 1; i <= 3; i++ {
			mb := model.Batch{Docs: []model.DocOp{{ID: rid[i%3], Ver: 100 + i}, {ID: rid[(i+1)%3], Del: i == 2}}, Ints: []model.IntOp{{Key: "m-r", Val: strconv.Itoa(i)}}}
			if mb.Docs[1].Del == false {
				mb.Docs[1].Ver = 200 + i
			}
			bb, _ := BuildBatch(ix, mb, false)
			if err := ix.Batch(bb); err != nil {
				c.Violate("write-after-recovery-failed", nil, step, "%s: batch %d on the reopened index: %v", what, i, err)
				return
			}
			m.Apply(mb)
		}
		ids2 := append(append([]string(nil), ids...), rid...)
		keys2 := append(append([]string(nil), keys...), "m-r")
		st2, err := ReadState(ix, ids2, keys2)
		if err != nil {
			c.Violate("write-after-recovery-failed", nil, step, "%s: read after writes: %v", what, err)
			return
		}
		if bad := CheckState(st2, m, ids2, keys2, false); len(bad) > 0 {
			c.Violate("write-after-recovery-wrong", nil, step, "%s: %s", what, strings.Join(bad, "; "))
			return
		}
		// a second crash, right after the recovered index acknowledged those batches (safe mode): the directory
		// as it is now, with the recovered instance still running, must reopen to exactly this state
		if r.n%3 == 0 {
			img2 := img + "-again"
			// the recovered instance runs on real goroutines: wait until every one of them is blocked, or the copy
			// would not be an instantaneous state of the directory (a half-written root.bolt is not a crash image)
			synctest.Wait()
			if err := CopyDir(img, img2); err == nil {
				c.Point("image@after-recovery-writes")
				if ix3, err := model.RecoveryCfg().Open(img2); err != nil {
					c.Violate("reopen-failed", map[string]string{"depth": "2"}, step, "%s: a second crash after recovery and three acknowledged batches: bleve.Open failed: %v", what, err)
				} else {
					if st4, err := ReadState(ix3, ids2, keys2); err != nil {
						c.Violate("reopen-unreadable", map[string]string{"depth": "2"}, step, "%s: second crash: %v", what, err)
					} else if bad := CheckState(st4, m, ids2, keys2, false); len(bad) > 0 {
						c.Violate("acked-batch-lost", map[string]string{"depth": "2"}, step, "%s: a second crash after recovery lost acknowledged batches of the recovered index: %s", what, strings.Join(bad, "; "))
					}
					_ = ix3.Close()
				}
				_ = os.RemoveAll(img2)
			}
		}
		closed = true
		if err := ix.Close(); err != nil {
			c.Violate("close-after-recovery-failed", nil, step, "%s: %v", what, err)
			return
		}
		ix2, err := model.RecoveryCfg().Open(img)
		if err != nil {
			c.Violate("second-reopen-failed", nil, step, "%s: %v", what, err)
			return
		}
		st3, err := ReadState(ix2, ids2, keys2)
		if err == nil {
			if bad := CheckState(st3, m, ids2, keys2, false); len(bad) > 0 {
				c.Violate("second-reopen-wrong", nil, step, "%s: %s", what, strings.Join(bad, "; "))
			}
		} else {
			c.Violate("second-reopen-failed", nil, step, "%s: %v", what, err)
		}
		_ = ix2.Close()
	}
	_ = sort.Strings
}

func init() {
	core.Scenarios["crash"] = crashScenario
}

func init() {
	core.PropertyScenario["C03"] = "crash"
}
