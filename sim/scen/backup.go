package scen

import (
	"context"
	"errors"
	"fmt"
	"io"
	"path/filepath"
	"strconv"
	"strings"
	"time"

	"bsim/core"
	"bsim/model"
	"bsim/sched"

	"github.com/blevesearch/bleve/v2"
	"github.com/blevesearch/bleve/v2/index/scorch"
	index "github.com/blevesearch/bleve_index_api"
)

// BackupCfg configures the online-backup scenario (C14).
type BackupCfg struct {
	SlowDst   int            `json:"slow_dst,omitempty"` // the destination directory needs this many scheduling steps per file
	Index     model.IndexCfg `json:"index"`
	Sched     sched.Config   `json:"sched"`
	NDocs     int            `json:"ndocs"`
	AnalysisQ int            `json:"analysis_q"`
	// DstFault n > 0: the n-th file a copy opens in the destination accepts DstFaultAfter bytes and then fails every
	// write with "no space left on device" (a fault of the backup target: CopyTo has to report it)
	DstFault      int `json:"dst_fault,omitempty"`
	DstFaultAfter int `json:"dst_fault_after,omitempty"`
	// Rename: the application gives the index a logical name different from its path before the copies
	Rename bool `json:"rename,omitempty"`
}

// BackupWL is the workload.
type BackupWL struct {
	Writers     [][]model.Batch `json:"writers"`
	Copies      []int           `json:"copies"` // yields before each CopyTo
	ForceMerges int             `json:"force_merges,omitempty"`
}

func genBackup(c *core.Ctx) (BackupCfg, BackupWL) {
	g := c.Gen
	cfg := BackupCfg{Index: model.GenIndexCfg(g), NDocs: 3 + g.Intn(3), AnalysisQ: 1 + g.Intn(3)}
	cfg.Index.Unsafe = g.Intn(2) == 0 // unsafe batches: the copied snapshot often holds unpersisted segments
	cfg.Sched = genSchedCfg(g, true)
	if g.Intn(3) == 0 {
		// a slow copier: persister, merger and purger get many rounds while a copy is in flight
		cfg.Sched = sched.Config{Policy: sched.PolStarve, StarveRole: "backup"}
	}
	cfg.SlowDst = []int{0, 0, 5, 40, 150}[g.Intn(5)]
	if g.Intn(5) == 0 {
		cfg.DstFault, cfg.DstFaultAfter = 1+g.Intn(4), []int{0, 1, 100, 1000}[g.Intn(4)]
	}
	cfg.Rename = g.Intn(4) == 0
	wl := BackupWL{}
	nw := 1 + g.Intn(3)
	total := 0
	for w := 0; w < nw; w++ {
		n := 5 + g.Intn(9)
		if c.Quick {
			n = 4 + g.Intn(6)
		}
		total += n
		wl.Writers = append(wl.Writers, genWriterBatches(g, w, cfg.NDocs, n))
	}
	nc := 1 + g.Intn(3)
	first := g.Intn(total * 20)
	for i := 0; i < nc; i++ {
		if g.Intn(2) == 0 {
			// overlapping copies: started within a few steps of each other
			wl.Copies = append(wl.Copies, first+g.Intn(12))
		} else {
			wl.Copies = append(wl.Copies, g.Intn(total*25))
		}
	}
	if g.Intn(2) == 0 {
		wl.ForceMerges = 1 + g.Intn(2)
	}
	return cfg, wl
}

// slowDirectory is a slow destination (the index.Directory seam CopyTo writes through): every file takes a number
// of scheduling steps to open, so that persists, merges and purges happen while a copy is under way.
type slowDirectory struct {
	index.Directory
	s     *sched.Sched
	steps int
	// fault injection: the faultAt-th file fails after faultAfter bytes
	faultAt, faultAfter int
	opened              int
	fired               bool
}

func (d *slowDirectory) GetWriter(filePath string) (io.WriteCloser, error) {
	for i := 0; i < d.steps; i++ {
		d.s.Yield("slow-destination")
	}
	w, err := d.Directory.GetWriter(filePath)
	if strings.HasSuffix(filePath, "root.bolt") {
		return w, err // CopyTo hands this one to bbolt, which needs the *os.File itself
	}
	d.opened++
	if err == nil && d.faultAt > 0 && d.opened == d.faultAt {
		return &fullDiskWriter{WriteCloser: w, left: d.faultAfter, d: d}, nil
	}
	return w, err
}

// fullDiskWriter accepts a number of bytes and then fails like a full disk.
type fullDiskWriter struct {
	io.WriteCloser
	left int
	d    *slowDirectory
}

func (w *fullDiskWriter) Write(p []byte) (int, error) {
	if len(p) <= w.left {
		w.left -= len(p)
		return w.WriteCloser.Write(p)
	}
	n, _ := w.WriteCloser.Write(p[:w.left])
	w.left = 0
	w.d.fired = true
	return n, errors.New("write: no space left on device (injected)")
}

func backupScenario(c *core.Ctx) {
	var cfg BackupCfg
	var wl BackupWL
	if len(c.Spec.Config) == 0 || len(c.Spec.Workload) == 0 {
		cfg, wl = genBackup(c)
		c.Spec.Config, c.Spec.Workload = nil, nil
	}
	cfg = core.LoadOrGen(&c.Spec.Config, func() BackupCfg { return cfg })
	wl = core.LoadOrGen(&c.Spec.Workload, func() BackupWL { return wl })
	env := NewEnv(c, cfg.Sched, cfg.AnalysisQ)
	s := env.S
	defer env.Finish()
	path := filepath.Join(c.Dir, "idx")
	store := filepath.Join(path, "store")
	icfg := cfg.Index
	icfg.AsyncCB = "bsim"
	var idx bleve.Index
	s.Spawn("setup", func() {
		var err error
		idx, err = icfg.Create(path, model.Mapping(false))
		if err != nil {
			c.Res.Harness = "create: " + err.Error()
		}
	})
	if !env.RunClients("setup") || c.Res.Harness != "" {
		return
	}
	if cfg.Rename {
		idx.SetName("renamed-by-the-application")
		c.Probe("index_renamed")
	}
	_ = s.Quiesce(2 * time.Second)
	nw := len(wl.Writers)
	prefixes := make([]*model.WriterPrefixes, nw)
	tracks := make([]*writerTrack, nw)
	var ids, keys []string
	for w := range wl.Writers {
		prefixes[w] = model.NewWriterPrefixes(w, cfg.NDocs, wl.Writers[w])
		n := len(wl.Writers[w]) + 1
		tracks[w] = &writerTrack{invStep: make([]int, n), ackStep: make([]int, n), retStep: make([]int, n)}
		for d := 0; d < cfg.NDocs; d++ {
			ids = append(ids, model.WriterID(w, d))
		}
		keys = append(keys, model.MarkerKey(w))
	}
	copies := 0
	for w := range wl.Writers {
		w := w
		s.Spawn(fmt.Sprintf("w%d", w), func() {
			tr := tracks[w]
			for k, mb := range wl.Writers[w] {
				seq := k + 1
				mb.Ints = append(append([]model.IntOp(nil), mb.Ints...), model.IntOp{Key: model.MarkerKey(w), Val: strconv.Itoa(seq)})
				bb, err := BuildBatch(idx, mb, false)
				if err != nil {
					c.Res.Harness = "build batch: " + err.Error()
					return
				}
				tr.invoked = seq
				tr.invStep[seq] = s.Steps
				if err := idx.Batch(bb); err != nil {
					c.Violate("batch-error", nil, s.Steps, "writer %d batch %d: %v", w, seq, err)
					return
				}
				tr.acked = seq
				tr.retStep[seq] = s.Steps
			}
		})
	}
	for ci, wait := range wl.Copies {
		ci, wait := ci, wait
		name := fmt.Sprintf("backup%d", ci)
		s.Spawn(name, func() {
			for i := 0; i < wait; i++ {
				s.Yield("backup-wait")
				if done := func() bool { cl, _ := s.Live(); return cl <= len(wl.Copies)-ci }(); done && i > 10 {
					break // the writers are done: copy now rather than idling
				}
			}
			before := make([]int, nw)
			for w, tr := range tracks {
				before[w] = tr.acked
			}
			invStep := s.Steps
			dst := filepath.Join(c.Dir, name)
			dir := &slowDirectory{Directory: bleve.FileSystemDirectory(dst), s: s, steps: cfg.SlowDst, faultAt: cfg.DstFault, faultAfter: cfg.DstFaultAfter}
			err := idx.(bleve.IndexCopyable).CopyTo(dir)
			after := invokedOf(tracks)
			copies++
			if dir.fired {
				c.Fault("backup_target_write_error")
				if err != nil {
					return // the fault was reported: nothing more is promised about this copy
				}
				// CopyTo says the copy is complete although a write into it failed: it is judged like any other copy
			}
			if err != nil {
				c.Violate("copy-failed", nil, s.Steps, "%s: CopyTo started at step %d returned %v", name, invStep, err)
				return
			}
			if s.Points["bolt.committed"] > 0 || s.Points["merge.introduced"] > 0 {
				c.Probe("copy_while_background_work")
			}
			// the copy opens and holds a legal prefix decomposition
			ix, err := model.RecoveryCfg().Open(dst)
			if err != nil {
				c.Violate("copy-does-not-open", nil, s.Steps, "%s: bleve.Open on the copy failed: %v (files %v)", name, err, ListZap(filepath.Join(dst, "store")))
				return
			}
			defer ix.Close()
			st, err := ReadState(ix, ids, keys)
			if err != nil {
				c.Violate("copy-does-not-open", nil, s.Steps, "%s: reading the copy failed: %v", name, err)
				return
			}
			m := model.NewMapModel()
			ks := make([]int, nw)
			okAll := true
			for w, wp := range prefixes {
				o := model.WriterObs{Marker: st.Ints[model.MarkerKey(w)], Vers: map[string]string{}}
				for d := 0; d < cfg.NDocs; d++ {
					id := model.WriterID(w, d)
					if sd := st.Docs[id]; sd != nil && len(sd["ver"]) == 1 {
						o.Vers[id] = sd["ver"][0]
					}
				}
				k, err := wp.Decompose(o)
				ks[w] = k
				if err != nil {
					okAll = false
					c.Violate("partial-batch-in-copy", nil, s.Steps, "%s: %v", name, err)
					continue
				}
				if k < before[w] {
					okAll = false
					c.Violate("copy-older-than-acknowledged", map[string]string{"unsafe": fmt.Sprint(cfg.Index.Unsafe)}, s.Steps, "%s: the copy holds %d batches of writer %d but %d had been acknowledged before CopyTo was called (step %d)", name, k, w, before[w], invStep)
				}
				if k > after[w] {
					okAll = false
					c.Violate("future-batch-in-copy", nil, s.Steps, "%s: the copy holds %d batches of writer %d but only %d were invoked", name, k, w, after[w])
				}
				for id, v := range wp.States[k].Docs {
					m.Docs[id] = v
				}
				for k2, v := range wp.States[k].Ints {
					m.Ints[k2] = v
				}
			}
			if !okAll {
				return
			}
			for b := 0; b < nw; b++ {
				for j := 1; j <= ks[b]; j++ {
					inv := tracks[b].invStep[j]
					for a := 0; a < nw; a++ {
						if a == b {
							continue
						}
						need := 0
						for i := 1; i <= tracks[a].invoked; i++ {
							if rs := tracks[a].retStep[i]; rs != 0 && rs < inv {
								need = i
							}
						}
						if ks[a] < need {
							c.Violate("copy-order-violated", nil, s.Steps, "%s: writer %d batch %d is in the copy but writer %d batch %d, returned before it was submitted, is not", name, b, j, a, need)
						}
					}
				}
			}
			if bad := CheckState(st, m, ids, keys, false); len(bad) > 0 {
				c.Violate("copy-state-inconsistent", nil, s.Steps, "%s: %s", name, strings.Join(bad, "; "))
				return
			}
			// the copy accepts writes
			mb := model.Batch{Docs: []model.DocOp{{ID: ids[0], Ver: 7000}}}
			bb, _ := BuildBatch(ix, mb, false)
			if err := ix.Batch(bb); err != nil {
				c.Violate("copy-not-writable", nil, s.Steps, "%s: %v", name, err)
				return
			}
			m.Apply(mb)
			if st2, err := ReadState(ix, ids, keys); err != nil {
				c.Violate("copy-not-writable", nil, s.Steps, "%s: %v", name, err)
			} else if bad := CheckState(st2, m, ids, keys, false); len(bad) > 0 {
				c.Violate("copy-not-writable", nil, s.Steps, "%s: after a write: %s", name, strings.Join(bad, "; "))
			}
		})
	}
	if wl.ForceMerges > 0 {
		s.Spawn("forcemerge", func() {
			adv, _ := idx.Advanced()
			sc, ok := adv.(*scorch.Scorch)
			if !ok {
				return
			}
			for i := 0; i < wl.ForceMerges; i++ {
				for j := 0; j < 20; j++ {
					s.Yield("forcemerge-wait")
				}
				_ = sc.ForceMerge(context.Background(), nil)
			}
		})
	}
	if !env.RunClients("workload") {
		return
	}
	c.Res.Completed = true
	// the source is unaffected
	final := model.NewMapModel()
	for w := range prefixes {
		stt := prefixes[w].States[tracks[w].acked]
		for id, v := range stt.Docs {
			final.Docs[id] = v
		}
		for k, v := range stt.Ints {
			final.Ints[k] = v
		}
	}
	s.Spawn("final", func() {
		st, err := ReadState(idx, ids, keys)
		if err != nil {
			c.Violate("source-affected", nil, s.Steps, "reading the source after the copies: %v", err)
			return
		}
		if bad := CheckState(st, final, ids, keys, false); len(bad) > 0 {
			c.Violate("source-affected", nil, s.Steps, "source after the copies: %s", strings.Join(bad, "; "))
		}
	})
	if !env.RunClients("final") {
		return
	}
	// files protected for the copy become removable again (no permanent leak through the copy bookkeeping):
	// wake the persister once, settle, and no file may remain that no snapshot names
	s.Spawn("nudge", func() {
		b := idx.NewBatch()
		b.SetInternal([]byte("nudge"), []byte("1"))
		_ = idx.Batch(b)
	})
	if !env.RunClients("nudge") {
		return
	}
	for round := 0; round < 4; round++ {
		_ = s.Quiesce(30 * time.Second)
	}
	snaps, _ := ReadRootBolt(store)
	named := map[string]bool{}
	for _, sn := range snaps {
		for _, f := range sn.Files {
			named[f] = true
		}
	}
	var orphans []string
	for _, f := range ListZap(store) {
		if !named[f] {
			orphans = append(orphans, f)
		}
	}
	if len(orphans) > 0 {
		c.ViolateProp("C12", "unneeded-files-remain", map[string]string{"after": "copy"}, s.Steps, "after the copies finished and the index settled, %v remain although no retained snapshot names them", orphans)
	}
	s.Spawn("closer", func() { _ = idx.Close() })
	if !env.RunClients("close") {
		return
	}
	for _, p := range s.Panics() {
		c.ViolateProp("C11", "panic", nil, s.Steps, "%s", p)
	}
	c.Res.Checks = copies
	c.Res.NonTrivial = copies > 0 && s.Points["bolt.committed"] > 1
	c.Res.Summary = fmt.Sprintf("writers=%d copies=%d unsafe=%v steps=%d", nw, copies, cfg.Index.Unsafe, s.Steps)
}

func init() {
	core.Scenarios["backup"] = backupScenario
	core.PropertyScenario["C14"] = "backup"
}
