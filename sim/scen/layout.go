package scen

import (
	"context"
	"encoding/json"
	"fmt"
	"math"
	"path/filepath"
	"sort"
	"strings"
	"time"

	"bsim/core"
	"bsim/model"
	"bsim/qeval"
	"bsim/sched"

	"github.com/blevesearch/bleve/v2"
	"github.com/blevesearch/bleve/v2/index/scorch"
	"github.com/blevesearch/bleve/v2/search"
)

// Req is a serialisable search request of the request family.
type Req struct {
	Q      qeval.Q  `json:"q"`
	Sort   []string `json:"sort,omitempty"` // empty = by score then natural order (compared per tie group)
	From   int      `json:"from,omitempty"`
	Size   int      `json:"size"`
	Fields bool     `json:"fields,omitempty"`
	Locs   bool     `json:"locs,omitempty"`
	HL     string   `json:"hl,omitempty"` // "", "html", "ansi"
	Facets int      `json:"facets,omitempty"`
	Score  string   `json:"score,omitempty"`
}

func (r Req) String() string {
	return fmt.Sprintf("%s sort=%v from=%d size=%d fields=%v locs=%v hl=%q facets=%d score=%q", r.Q, r.Sort, r.From, r.Size, r.Fields, r.Locs, r.HL, r.Facets, r.Score)
}

var sortChoices = [][]string{
	{"num", "-_id"}, {"-num", "_id"}, {"kw", "_id"}, {"-kw", "-_id"}, {"date", "_id"}, {"-date", "_id"}, {"_id"}, {"-_id"},
	{"tags:min", "_id"}, {"-tags:max", "_id"}, {"tags:max", "-_id"}, {"flag", "num", "_id"}, {"num#n", "_id"}, {"-date#d", "-_id"}, {"-_score", "_id"}, {"_score", "-_id"}, {"kw", "-num", "_id"},
}

// partial sorts (not total): compared per tie group, requested with Size covering everything
var partialSorts = [][]string{{"kw"}, {"-num"}, {"flag"}, {"-_score"}, {"date"}}

// GenReq draws a request; nids bounds the page sizes.
func GenReq(g qeval.R, ids []string, rich bool) Req {
	r := Req{Q: qeval.Gen(g, 2, ids, rich)}
	n := len(ids)
	switch g.Intn(6) {
	case 0:
		r.Sort = partialSorts[g.Intn(len(partialSorts))]
		r.Size = n + 5
	case 1:
		r.Size = n + 5 // default sort: score, natural order among equals
	default:
		r.Sort = sortChoices[g.Intn(len(sortChoices))]
		r.From = g.Intn(5)
		r.Size = 1 + g.Intn(n)
	}
	if r.Q.HasMultiTerm() {
		// scores of term-expanding queries depend on the layout (known finding): never order those by score
		for _, s := range r.Sort {
			if strings.Contains(s, "_score") {
				r.Sort = []string{"num", "_id"}
			}
		}
		if len(r.Sort) == 0 {
			r.Sort = []string{"-num", "_id"}
		}
	}
	r.Fields = g.Intn(2) == 0
	r.Locs = g.Intn(2) == 0
	r.HL = []string{"", "", "html", "ansi"}[g.Intn(4)]
	if g.Intn(2) == 0 {
		r.Facets = []int{1, 2, 3, 10}[g.Intn(4)]
	}
	if g.Intn(6) == 0 {
		r.Score = "none"
		for _, s := range r.Sort {
			if strings.Contains(s, "_score") {
				r.Score = ""
			}
		}
	}
	return r
}

// sortOrder parses sort keys "field", "-field", "field#n" / "field#d" (explicit number / date type), "field:min",
// "-field:max" (the mode picks the value of a
// multi-valued field; without a mode the key of such a field is "the first value visited", which is not a function
// of the document).
func sortOrder(keys []string) search.SortOrder {
	var so search.SortOrder
	for _, k := range keys {
		name, mode, has := strings.Cut(k, ":")
		name, typ, typed := strings.Cut(name, "#")
		ss := search.ParseSearchSortString(name)
		if sf, ok := ss.(*search.SortField); ok && typed {
			// an explicitly typed sort: keys are reported, and SearchAfter keys are given, in decoded form
			if typ == "n" {
				sf.Type = search.SortFieldAsNumber
			} else {
				sf.Type = search.SortFieldAsDate
			}
		}
		if sf, ok := ss.(*search.SortField); ok && has {
			if mode == "min" {
				sf.Mode = search.SortFieldMin
			} else {
				sf.Mode = search.SortFieldMax
			}
		}
		so = append(so, ss)
	}
	return so
}

// AfterKeys turns the sort keys of a hit into the form SearchAfter / SearchBefore expect: keys of explicitly typed
// number / date fields come back prefix-coded and have to be handed in decoded.
func (r Req) AfterKeys(hitSort []string) []string {
	so := sortOrder(r.Sort)
	out := append([]string(nil), hitSort...)
	for i, ss := range so {
		if sf, ok := ss.(*search.SortField); ok && i < len(out) && (sf.Type == search.SortFieldAsNumber || sf.Type == search.SortFieldAsDate) {
			out[i] = sf.DecodeValue(out[i])
		}
	}
	return out
}

// Bleve builds the search request.
func (r Req) Bleve() *bleve.SearchRequest {
	req := bleve.NewSearchRequestOptions(r.Q.Bleve(), r.Size, r.From, false)
	if len(r.Sort) > 0 {
		req.SortByCustom(sortOrder(r.Sort))
	}
	if r.Fields {
		req.Fields = []string{"*"}
	}
	req.IncludeLocations = r.Locs
	switch r.HL {
	case "html":
		req.Highlight = bleve.NewHighlightWithStyle("html")
	case "ansi":
		req.Highlight = bleve.NewHighlightWithStyle("ansi")
	}
	req.Score = r.Score
	if r.Facets > 0 {
		req.AddFacet("kws", bleve.NewFacetRequest("kw", r.Facets))
		req.AddFacet("tags", bleve.NewFacetRequest("tags", r.Facets))
		nf := bleve.NewFacetRequest("num", 10)
		lo, mid, hi := -10.0, 0.0, 4.0
		nf.AddNumericRange("neg", &lo, &mid)
		nf.AddNumericRange("small", &mid, &hi)
		nf.AddNumericRange("big", &hi, nil)
		nf.AddNumericRange("nonneg", &mid, nil) // shares its lower bound with "small", open-ended
		nf.AddNumericRange("upto4", nil, &hi)   // shares its upper bound with "small", open below
		req.AddFacet("nums", nf)
		df := bleve.NewFacetRequest("date", 10)
		df.AddDateTimeRange("old", time.Date(2000, 1, 1, 0, 0, 0, 0, time.UTC), time.Date(2010, 1, 1, 0, 0, 0, 0, time.UTC))
		df.AddDateTimeRange("new", time.Date(2010, 1, 1, 0, 0, 0, 0, time.UTC), time.Date(2030, 1, 1, 0, 0, 0, 0, time.UTC))
		df.AddDateTimeRange("since2010", time.Date(2010, 1, 1, 0, 0, 0, 0, time.UTC), time.Time{})
		req.AddFacet("dates", df)
	}
	return req
}

// hitView is the layout independent view of one hit.
type hitView struct {
	ID     string
	Score  uint64
	Sort   []string
	Fields string
	Locs   string
	Frags  string
}

type resultView struct {
	Total    uint64
	MaxScore uint64
	Hits     []hitView
	Facets   string
}

func canonLocs(l search.FieldTermLocationMap) string {
	if len(l) == 0 {
		return ""
	}
	b, _ := json.Marshal(l)
	return string(b)
}

func viewOf(res *bleve.SearchResult) resultView {
	v := resultView{Total: res.Total, MaxScore: math.Float64bits(res.MaxScore)}
	for _, h := range res.Hits {
		hv := hitView{ID: h.ID, Score: math.Float64bits(h.Score), Sort: h.Sort, Locs: canonLocs(h.Locations)}
		if len(h.Fields) > 0 {
			b, _ := json.Marshal(h.Fields)
			hv.Fields = string(b)
		}
		if len(h.Fragments) > 0 {
			b, _ := json.Marshal(h.Fragments)
			hv.Frags = string(b)
		}
		v.Hits = append(v.Hits, hv)
	}
	if len(res.Facets) > 0 {
		b, _ := json.Marshal(res.Facets)
		v.Facets = string(b)
	}
	return v
}

// compareViews reports the differences between two results of the same request as (clause, detail) pairs.
// total = the request's sort is a total order (hits compared position by position); otherwise hits are compared
// per tie group (equal sort keys) as sets.
func compareViews(a, b resultView, total bool, multiTerm bool) [][2]string {
	var out [][2]string
	add := func(clause, format string, args ...any) {
		out = append(out, [2]string{clause, fmt.Sprintf(format, args...)})
	}
	if a.Total != b.Total {
		add("total-differs", "Total %d vs %d", a.Total, b.Total)
	}
	if a.Facets != b.Facets {
		add("facets-differ", "facets\n    %s\n vs %s", a.Facets, b.Facets)
	}
	ha, hb := a.Hits, b.Hits
	if len(ha) != len(hb) {
		add("hits-differ", "%d hits vs %d hits: %v vs %v", len(ha), len(hb), idsOf(ha), idsOf(hb))
		return out
	}
	if !total {
		// order inside a tie group is natural index order, which is layout dependent: sort groups by id
		group := func(h []hitView) []hitView {
			c := append([]hitView(nil), h...)
			key := func(x hitView) string { return strings.Join(x.Sort, "\x00") }
			sort.SliceStable(c, func(i, j int) bool {
				if key(c[i]) != key(c[j]) {
					return false
				}
				return c[i].ID < c[j].ID
			})
			// stable sort with a partial comparator is not a valid ordering; do it group by group instead
			res := make([]hitView, 0, len(c))
			for i := 0; i < len(h); {
				j := i
				for j < len(h) && key(h[j]) == key(h[i]) {
					j++
				}
				g := append([]hitView(nil), h[i:j]...)
				sort.Slice(g, func(x, y int) bool { return g[x].ID < g[y].ID })
				res = append(res, g...)
				i = j
			}
			return res
		}
		ha, hb = group(ha), group(hb)
	}
	for i := range ha {
		x, y := ha[i], hb[i]
		if x.ID != y.ID {
			add("hits-differ", "position %d: %s vs %s (ids %v vs %v)", i, x.ID, y.ID, idsOf(ha), idsOf(hb))
			return out
		}
		if strings.Join(x.Sort, "\x00") != strings.Join(y.Sort, "\x00") {
			// sort keys holding a score differ with the score
			if !(multiTerm && hasScoreKey(x.Sort, y.Sort)) {
				add("sortkeys-differ", "hit %s: sort keys %q vs %q", x.ID, x.Sort, y.Sort)
			}
		}
		if x.Score != y.Score {
			if multiTerm {
				add("score-multiterm", "hit %s: score %v vs %v", x.ID, math.Float64frombits(x.Score), math.Float64frombits(y.Score))
			} else {
				add("score-differs", "hit %s: score %v vs %v", x.ID, math.Float64frombits(x.Score), math.Float64frombits(y.Score))
			}
		}
		if x.Fields != y.Fields {
			add("fields-differ", "hit %s: fields %s vs %s", x.ID, x.Fields, y.Fields)
		}
		if x.Locs != y.Locs {
			add("locations-differ", "hit %s: locations %s vs %s", x.ID, x.Locs, y.Locs)
		}
		if x.Frags != y.Frags {
			add("fragments-differ", "hit %s: fragments %s vs %s", x.ID, x.Frags, y.Frags)
		}
	}
	if a.MaxScore != b.MaxScore {
		if multiTerm {
			add("score-multiterm", "MaxScore %v vs %v", math.Float64frombits(a.MaxScore), math.Float64frombits(b.MaxScore))
		} else {
			add("score-differs", "MaxScore %v vs %v", math.Float64frombits(a.MaxScore), math.Float64frombits(b.MaxScore))
		}
	}
	return out
}

func hasScoreKey(a, b []string) bool {
	// a sort key list differs only where a score is encoded: cheap approximation - any differing key parses as a number
	for i := range a {
		if i < len(b) && a[i] != b[i] {
			return true
		}
	}
	return false
}

func idsOf(h []hitView) []string {
	var out []string
	for _, x := range h {
		out = append(out, x.ID)
	}
	return out
}

func sortIsTotal(s []string) bool {
	for _, k := range s {
		if strings.TrimPrefix(k, "-") == "_id" {
			return true
		}
	}
	return false
}

// LayoutCfg configures the layout scenario (C05).
type LayoutCfg struct {
	A         model.IndexCfg `json:"a"`
	B         model.IndexCfg `json:"b"`
	Sched     sched.Config   `json:"sched"`
	NIDs      int            `json:"nids"`
	AnalysisQ int            `json:"analysis_q"`
	Reopen    bool           `json:"reopen"` // close/reopen A before the last comparison
}

// LayoutWL is the workload: one logical history, then requests.
type LayoutWL struct {
	Ops   []HistOp `json:"ops"`
	FuseB int      `json:"fuse_b"`
	Reqs  []Req    `json:"reqs"`
}

func genLayout(c *core.Ctx) (LayoutCfg, LayoutWL) {
	g := c.Gen
	cfg := LayoutCfg{A: model.GenIndexCfg(g), B: model.GenIndexCfg(g), NIDs: 10 + g.Intn(25), AnalysisQ: 1 + g.Intn(3)}
	cfg.A.Unsafe = g.Intn(4) == 0
	switch g.Intn(5) {
	case 0:
		cfg.B.InMem = true
	case 1, 2:
		cfg.B.SegVer = 11 + g.Intn(7)
	case 3:
		cfg.B.Unsafe = true
	}
	cfg.Sched = genSchedCfg(g, true)
	cfg.Reopen = !cfg.A.Unsafe && g.Intn(2) == 0
	ids := make([]string, cfg.NIDs)
	for i := range ids {
		ids[i] = fmt.Sprintf("d%02d", i)
	}
	wl := LayoutWL{FuseB: 1 + g.Intn(8)}
	nops := 20 + g.Intn(60)
	if c.Quick && nops > 45 {
		nops = 45
	}
	ver := 0
	docOp := func() model.DocOp {
		id := ids[g.Intn(len(ids))]
		if g.Intn(5) == 0 {
			return model.DocOp{ID: id, Del: true}
		}
		ver++
		return model.DocOp{ID: id, Ver: ver}
	}
	for i := 0; i < nops; i++ {
		switch r := g.Intn(20); {
		case r < 8:
			op := docOp()
			if op.Del {
				wl.Ops = append(wl.Ops, HistOp{K: "delete", ID: op.ID})
			} else {
				wl.Ops = append(wl.Ops, HistOp{K: "index", ID: op.ID, Ver: op.Ver})
			}
		case r < 18:
			b := &model.Batch{}
			n := 1 + g.Intn(8)
			for j := 0; j < n; j++ {
				b.Docs = append(b.Docs, docOp())
			}
			wl.Ops = append(wl.Ops, HistOp{K: "batch", Batch: b})
		default:
			wl.Ops = append(wl.Ops, HistOp{K: "forcemerge"})
		}
	}
	nreq := 15 + g.Intn(20)
	if c.Quick {
		nreq = 10 + g.Intn(10)
	}
	for i := 0; i < nreq; i++ {
		wl.Reqs = append(wl.Reqs, GenReq(g, ids, true))
	}
	return cfg, wl
}

func layoutScenario(c *core.Ctx) {
	var cfg LayoutCfg
	var wl LayoutWL
	if len(c.Spec.Config) == 0 || len(c.Spec.Workload) == 0 {
		cfg, wl = genLayout(c)
		c.Spec.Config, c.Spec.Workload = nil, nil
	}
	cfg = core.LoadOrGen(&c.Spec.Config, func() LayoutCfg { return cfg })
	wl = core.LoadOrGen(&c.Spec.Workload, func() LayoutWL { return wl })
	env := NewEnv(c, cfg.Sched, cfg.AnalysisQ)
	s := env.S
	defer env.Finish()
	ids := make([]string, cfg.NIDs)
	for i := range ids {
		ids[i] = fmt.Sprintf("d%02d", i)
	}
	hc := &HistCfg{Rich: true}
	mk := func(name string, ic model.IndexCfg) *histClient {
		ic.AsyncCB = "bsim"
		return &histClient{c: c, s: s, name: name, cfg: ic, hc: hc, path: filepath.Join(c.Dir, name), m: model.NewMapModel(), ids: ids}
	}
	a, b := mk("A", cfg.A), mk("B", cfg.B)
	compared := 0
	s.Spawn("layout", func() {
		var err error
		if a.idx, err = a.cfg.Create(a.path, model.Mapping(false)); err != nil {
			c.Res.Harness = "create A: " + err.Error()
			a.idx = nil
			return
		}
		if b.idx, err = b.cfg.Create(b.path, model.Mapping(false)); err != nil {
			c.Res.Harness = "create B: " + err.Error()
			b.idx = nil
			return
		}
		var pendingB []HistOp
		for _, op := range wl.Ops {
			switch {
			case isWrite(op.K):
				if op.K == "batch" && op.Batch == nil {
					continue
				}
				if !a.write(op) {
					return
				}
				pendingB = append(pendingB, op)
			case op.K == "forcemerge":
				forceMerge(a.idx)
				c.Probe("force_merge")
			}
		}
		for i := 0; i < len(pendingB); {
			var fused model.Batch
			n := 0
			for i < len(pendingB) && n < wl.FuseB {
				ob := opAsBatch(pendingB[i])
				fused.Docs = append(fused.Docs, ob.Docs...)
				fused.Ints = append(fused.Ints, ob.Ints...)
				i++
				n++
			}
			if !b.applyBatch(fused, "fused batch") {
				return
			}
		}
		run := func(h *histClient, r Req) (resultView, bool) {
			res, err := h.idx.Search(r.Bleve())
			if err != nil {
				c.Violate("search-error", nil, s.Steps, "%s: %s: %v", h.name, r, err)
				return resultView{}, false
			}
			return viewOf(res), true
		}
		judge := func(what string, r Req, x, y resultView) {
			compared++
			for _, d := range compareViews(x, y, len(r.Sort) > 0 && sortIsTotal(r.Sort), r.Q.HasMultiTerm()) {
				c.Violate(d[0], map[string]string{"pair": what}, s.Steps, "%s: request %s\n  %s", what, r, d[1])
			}
		}
		first := make([]resultView, len(wl.Reqs))
		okv := make([]bool, len(wl.Reqs))
		for i, r := range wl.Reqs {
			va, ok1 := run(a, r)
			vb, ok2 := run(b, r)
			first[i], okv[i] = va, ok1
			if ok1 && ok2 {
				judge("two instances with different layouts", r, va, vb)
			}
		}
		// the same instance before and after a forced merge
		forceMerge(a.idx)
		for i, r := range wl.Reqs {
			if va, ok := run(a, r); ok && okv[i] {
				judge("one instance before and after a forced merge", r, first[i], va)
			}
		}
		if cfg.Reopen && !cfg.A.InMem {
			if err := a.idx.Close(); err != nil {
				c.Violate("close-error", nil, s.Steps, "%v", err)
				a.idx = nil
				return
			}
			if a.idx, err = a.cfg.Open(a.path); err != nil {
				c.Violate("reopen-error", nil, s.Steps, "%v", err)
				a.idx = nil
				return
			}
			c.Probe("reopen")
			for i, r := range wl.Reqs {
				if va, ok := run(a, r); ok && okv[i] {
					judge("one instance before and after close/reopen", r, first[i], va)
				}
			}
		}
	})
	ok := env.RunClients("layout")
	if !ok {
		// the client did not finish (deadlock or step cap, already recorded): nothing it reports from here on is
		// meaningful, and closing the indexes under it would only add noise
		c.TolerateLeak = true
		return
	}
	s.Spawn("closer", func() {
		for _, h := range []*histClient{a, b} {
			if h.idx != nil {
				_ = h.idx.Close()
			}
		}
	})
	if !env.RunClients("close") || !ok {
		return
	}
	c.Res.Completed = true
	c.Res.Checks = compared
	for _, p := range s.Panics() {
		c.ViolateProp("C11", "panic", nil, s.Steps, "%s", p)
	}
	c.Res.NonTrivial = compared > 0 && s.Points["bolt.committed"] > 1
	c.Res.Summary = fmt.Sprintf("ops=%d requests=%d comparisons=%d steps=%d", len(wl.Ops), len(wl.Reqs), compared, s.Steps)
}

func forceMerge(idx bleve.Index) {
	if adv, _ := idx.Advanced(); adv != nil {
		if sc, ok := adv.(*scorch.Scorch); ok {
			_ = sc.ForceMerge(context.Background(), nil)
		}
	}
}

func init() {
	core.Scenarios["layout"] = layoutScenario
	core.PropertyScenario["C05"] = "layout"
}
