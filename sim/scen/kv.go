package scen

import (
	"bytes"
	"encoding/binary"
	"encoding/hex"
	"encoding/json"
	"fmt"
	"slices"
	"sort"
	"strings"

	"bsim/core"
	"bsim/sched"

	store "github.com/blevesearch/upsidedown_store_api"
)

// KVCfg configures the KV adapter scenario (C15).
type KVCfg struct {
	Store string `json:"store"` // boltdb goleveldb gtreap moss metrics-gtreap metrics-boltdb moss-over-gtreap moss-over-mossStore
	// LLBatch: moss in front of a lower-level store: mossLowerLevelMaxBatchSize
	LLBatch int    `json:"ll_batch,omitempty"`
	MO      string `json:"mo"` // append | counter
	// MossGate: moss's merger is parked after every round and released by the batches marked MR (kvmoss.go)
	MossGate bool         `json:"moss_gate,omitempty"`
	Conc     bool         `json:"conc,omitempty"` // clients are scheduler tasks: calls of different clients overlap (kvconc.go)
	Sched    sched.Config `json:"sched"`
}

// KVOp is one call of one logical client.
type KVOp struct {
	Ex  bool    `json:"ex,omitempty"`  // batch built with NewBatchEx into the buffer the store hands out, like upsidedown does
	C   int     `json:"c"`             // client: 0 = writer, 1.. = readers
	K   string  `json:"k"`             // batch | open | close | get | multiget | prefix | range | next | seek | cur | itclose
	Ops []KVBOp `json:"ops,omitempty"` // batch
	Key int     `json:"key,omitempty"` // index into the key space
	Ks  []int   `json:"ks,omitempty"`  // multiget
	A   int     `json:"a,omitempty"`   // range start (-1 = nil)
	Z   int     `json:"z,omitempty"`   // range end (-1 = nil)
	It  int     `json:"it,omitempty"`  // iterator slot (0/1)
	MR  bool    `json:"mr,omitempty"`  // batch, gated moss: the merger runs until idle after this batch
}

// KVBOp is one operation inside a batch.
type KVBOp struct {
	T   string `json:"t"` // set | del | merge
	Key int    `json:"key"`
	Val KVVal  `json:"val,omitempty"`
}

// KVVal is a value as raw bytes; it travels hex-encoded in replay files so that bytes >= 0x80 survive JSON.
type KVVal string

func (v KVVal) MarshalJSON() ([]byte, error) { return json.Marshal(hex.EncodeToString([]byte(v))) }
func (v *KVVal) UnmarshalJSON(b []byte) error {
	var s string
	if err := json.Unmarshal(b, &s); err != nil {
		return err
	}
	raw, err := hex.DecodeString(s)
	if err != nil {
		return err
	}
	*v = KVVal(raw)
	return nil
}

// KVWL is the workload.
type KVWL struct {
	Ops []KVOp `json:"ops"`
}

// kvKeys is small and built to collide: shared prefixes, 0x00 / 0xff bytes, 0xff separators like upsidedown's rows.
var kvKeys = [][]byte{
	[]byte("a"), []byte("a\x00"), []byte("a\x00\x00"), []byte("a\xff"), []byte("a\xff\xff"), []byte("ab"), []byte("ab\xffc"), []byte("ab\xffd"), []byte("abc"),
	[]byte("b"), []byte("b\x00"), []byte("b\xff"), []byte("ba"), []byte("bb\xff"), []byte("c"), []byte("ca"), []byte("cb"), []byte("c\xff\xffz"),
	{0}, {0, 0}, {0, 1}, {0, 0xff}, {0xff}, {0xff, 0}, {0xff, 0xff}, {0xff, 0xff, 0xff}, []byte("t\x01\x00cat\xffd1"), []byte("t\x01\x00cat\xffd2"), []byte("t\x01\x00car\xffd1"),
	[]byte("t\x02\x00cat\xffd1"), []byte("d\x01\x00cat"), []byte("d\x01\x00car"), []byte("b\xffd1"), []byte("z"), []byte("zz"), []byte("zzz"), []byte("m"), []byte("m\xff"), []byte("n"), []byte("n\x00"),
}

type appendMO struct{}

// kvPoison is the first byte of a merge operand that the merge operators refuse (FullMerge / PartialMerge return
// false): the injected fault of the KV scenario. A batch that carries one must fail as a whole.
const kvPoison = 0xEE

func poisoned(ops ...[]byte) bool {
	for _, o := range ops {
		if len(o) > 0 && o[0] == kvPoison {
			return true
		}
	}
	return false
}

func (appendMO) FullMerge(key, existing []byte, operands [][]byte) ([]byte, bool) {
	if poisoned(operands...) {
		return nil, false
	}
	r := append([]byte(nil), existing...)
	for _, o := range operands {
		r = append(r, o...)
	}
	return r, true
}
func (appendMO) PartialMerge(key, l, r []byte) ([]byte, bool) {
	if poisoned(l, r) {
		return nil, false
	}
	return append(append([]byte(nil), l...), r...), true
}
func (appendMO) Name() string { return "append" }

// counterMO adds little-endian 64-bit counters (modular, so that partial and full merges agree), the shape of
// upsidedown's dictionary-count operator.
type counterMO struct{}

func le(b []byte) uint64 {
	if len(b) < 8 {
		var x [8]byte
		copy(x[:], b)
		return binary.LittleEndian.Uint64(x[:])
	}
	return binary.LittleEndian.Uint64(b)
}
func (counterMO) FullMerge(key, existing []byte, operands [][]byte) ([]byte, bool) {
	if poisoned(operands...) {
		return nil, false
	}
	v := le(existing)
	for _, o := range operands {
		v += le(o)
	}
	rv := make([]byte, 8)
	binary.LittleEndian.PutUint64(rv, v)
	return rv, true
}
func (counterMO) PartialMerge(key, l, r []byte) ([]byte, bool) {
	if poisoned(l, r) {
		return nil, false
	}
	rv := make([]byte, 8)
	binary.LittleEndian.PutUint64(rv, le(l)+le(r))
	return rv, true
}
func (counterMO) Name() string { return "counter" }

var kvStores = []string{"boltdb", "goleveldb", "gtreap", "moss", "metrics-gtreap", "metrics-boltdb", "moss", "moss-over-gtreap", "moss-over-mossStore"}

func genKV(c *core.Ctx) (KVCfg, KVWL) {
	g := c.Gen
	cfg := KVCfg{Store: kvStores[g.Intn(len(kvStores))], MO: []string{"append", "counter"}[g.Intn(2)], Conc: g.Intn(5) < 2, Sched: genSchedCfg(g, false)}
	cfg.Sched.TimeEvery = 0
	cfg.MossGate = g.Intn(4) != 0
	if strings.HasPrefix(cfg.Store, "moss-over-") {
		cfg.LLBatch = []int{0, 1, 2, 3, 5}[g.Intn(5)]
	}
	nreaders := 1 + g.Intn(3)
	n := 60 + g.Intn(120)
	if c.Quick {
		n = 40 + g.Intn(60)
	}
	wl := KVWL{}
	nk := len(kvKeys)
	lastStart := map[[2]int]int{} // (client, slot) -> lower bound of the iterator opened there last
	var recent []int              // keys of the latest batch operations: reads aim at them half of the time
	var present, recentDel []int  // keys that exist / were deleted lately, as far as the generator can tell
	pick := func() int {
		if len(recentDel) > 0 && g.Intn(4) == 0 {
			return recentDel[len(recentDel)-1-g.Intn(min(len(recentDel), 3))]
		}
		if len(recent) > 0 && g.Intn(2) == 0 {
			return recent[len(recent)-1-g.Intn(min(len(recent), 8))]
		}
		return g.Intn(nk)
	}
	for i := 0; i < n; i++ {
		if g.Intn(3) == 0 {
			op := KVOp{C: 0, K: "batch", Ex: g.Intn(2) == 0, MR: g.Intn(3) == 0}
			used := map[int]bool{}
			for j := 0; j < 1+g.Intn(10); j++ {
				k := g.Intn(nk)
				kind := g.Intn(5)
				if kind == 0 && len(present) > 0 && g.Intn(4) != 0 {
					k = present[g.Intn(len(present))] // most deletes hit a key that exists
				}
				if used[k] {
					continue // the interface does not define the order between operations on one key inside a batch
				}
				used[k] = true
				recent = append(recent, k)
				if kind == 0 {
					recentDel = append(recentDel, k)
					for x, pk := range present {
						if pk == k {
							present = append(present[:x], present[x+1:]...)
							break
						}
					}
				} else if !slices.Contains(present, k) {
					present = append(present, k)
				}
				switch kind {
				case 0:
					op.Ops = append(op.Ops, KVBOp{T: "del", Key: k})
				case 1, 2:
					op.Ops = append(op.Ops, KVBOp{T: "merge", Key: k, Val: KVVal([]byte{byte(1 + g.Intn(200)), 0, 0, 0, 0, 0, 0, 0})})
				default:
					v := KVVal([]byte{byte(i), byte(j), 0, 0, 0, 0, 0, 0})
					if g.Intn(6) == 0 {
						v = ""
					}
					op.Ops = append(op.Ops, KVBOp{T: "set", Key: k, Val: v})
				}
			}
			if !cfg.Conc && !strings.HasPrefix(cfg.Store, "moss") && len(op.Ops) > 0 && g.Intn(12) == 0 {
				// the fault: one more merge, on a key the batch does not touch yet, whose operand the operator refuses
				for try := 0; try < 5; try++ {
					if k := g.Intn(nk); !used[k] {
						op.Ops = append(op.Ops, KVBOp{T: "merge", Key: k, Val: KVVal([]byte{kvPoison, 0, 0, 0, 0, 0, 0, 0})})
						break
					}
				}
			}
			wl.Ops = append(wl.Ops, op)
			continue
		}
		if len(recent) > 0 && g.Intn(12) == 0 {
			// a directed probe: a fresh reader, an iterator whose lower bound is a key that was just written or deleted,
			// a few steps forward, then a seek back to (or near) that bound
			cl, slot, k := 1+g.Intn(nreaders), g.Intn(2), pick()
			wl.Ops = append(wl.Ops, KVOp{C: cl, K: "close"}, KVOp{C: cl, K: "open"})
			if g.Intn(2) == 0 {
				wl.Ops = append(wl.Ops, KVOp{C: cl, K: "prefix", It: slot, Key: k})
			} else {
				wl.Ops = append(wl.Ops, KVOp{C: cl, K: "range", It: slot, A: k, Z: g.Intn(nk+1) - 1})
			}
			for j := g.Intn(3); j > 0; j-- {
				wl.Ops = append(wl.Ops, KVOp{C: cl, K: "next", It: slot})
			}
			sk := k
			if g.Intn(3) == 0 {
				sk = pick()
			}
			wl.Ops = append(wl.Ops, KVOp{C: cl, K: "seek", It: slot, Key: sk}, KVOp{C: cl, K: "next", It: slot})
			lastStart[[2]int{cl, slot}] = k
			continue
		}
		op := KVOp{C: 1 + g.Intn(nreaders), It: g.Intn(2), Key: pick(), A: g.Intn(nk+1) - 1, Z: g.Intn(nk+1) - 1}
		op.K = []string{"open", "get", "get", "multiget", "prefix", "range", "next", "next", "next", "seek", "cur", "itclose", "close", "next", "cur", "seek", "open"}[g.Intn(17)]
		switch op.K {
		case "range":
			if g.Intn(2) == 0 {
				op.A = pick() // a range that starts exactly at a key that was just written or deleted
			}
			lastStart[[2]int{op.C, op.It}] = op.A
		case "prefix":
			lastStart[[2]int{op.C, op.It}] = op.Key
		case "seek":
			// half of the seeks go back to the lower bound of the iterator (or just around it)
			if st, ok := lastStart[[2]int{op.C, op.It}]; ok && st >= 0 && g.Intn(2) == 0 {
				op.Key = st
			}
		}
		if op.K == "multiget" {
			for j := 0; j < 1+g.Intn(5); j++ {
				op.Ks = append(op.Ks, g.Intn(nk))
			}
		}
		wl.Ops = append(wl.Ops, op)
	}
	return cfg, wl
}

type kvModel map[string][]byte

func (m kvModel) clone() kvModel {
	c := kvModel{}
	for k, v := range m {
		c[k] = append([]byte(nil), v...)
	}
	return c
}

// modelIter is the reference iterator: the sorted keys of the snapshot inside [start, end) / with a prefix.
type modelIter struct {
	keys  []string
	vals  map[string][]byte
	pos   int
	start []byte
	desc  string
}

func newModelIter(m kvModel, pred func(k string) bool, start []byte, desc string) *modelIter {
	it := &modelIter{vals: m, start: start, desc: desc}
	for k := range m {
		if pred(k) {
			it.keys = append(it.keys, k)
		}
	}
	sort.Strings(it.keys)
	return it
}

func (it *modelIter) cur() (k, v []byte, ok bool) {
	if it.pos < len(it.keys) {
		k := it.keys[it.pos]
		return []byte(k), it.vals[k], true
	}
	return nil, nil, false
}

type kvReader struct {
	r    store.KVReader
	m    kvModel
	its  [2]store.KVIterator
	mits [2]*modelIter
	born int
}

func kvScenario(c *core.Ctx) {
	var cfg KVCfg
	var wl KVWL
	if len(c.Spec.Config) == 0 || len(c.Spec.Workload) == 0 {
		cfg, wl = genKV(c)
		c.Spec.Config, c.Spec.Workload = nil, nil
	}
	cfg = core.LoadOrGen(&c.Spec.Config, func() KVCfg { return cfg })
	wl = core.LoadOrGen(&c.Spec.Workload, func() KVWL { return wl })
	if cfg.Conc {
		kvConcScenario(c, cfg, wl)
		return
	}
	env := NewEnv(c, sched.Config{Policy: sched.PolUniform}, 1)
	defer env.Finish()
	sig := map[string]string{"store": cfg.Store}
	st, mo, gate, err := openKVStore(cfg, c.Dir)
	if err != nil {
		c.Res.Harness = "open store: " + err.Error()
		return
	}
	defer gate.done()
	m := kvModel{}
	readers := map[int]*kvReader{}
	checks := 0
	step := 0
	viol := func(clause, format string, a ...any) {
		c.Violate(clause, sig, step, format, a...)
	}
	same := func(a, b []byte) bool { return bytes.Equal(a, b) }
	checkIt := func(what string, it store.KVIterator, mi *modelIter) {
		checks++
		k, v, ok := it.Current()
		mk, mv, mok := mi.cur()
		if ok != mok || (ok && (!same(k, mk) || !same(v, mv))) {
			viol("iterator-differs", "%s on %s: adapter at (%x=%x valid=%v), ordered map at (%x=%x valid=%v)", what, mi.desc, k, v, ok, mk, mv, mok)
			return
		}
		if it.Valid() != mok {
			viol("iterator-differs", "%s on %s: Valid()=%v, ordered map says %v", what, mi.desc, it.Valid(), mok)
		}
		if ok && (!same(it.Key(), mk) || !same(it.Value(), mv)) {
			viol("iterator-differs", "%s on %s: Key/Value (%x=%x) differ from Current (%x=%x)", what, mi.desc, it.Key(), it.Value(), mk, mv)
		}
	}
	for i, op := range wl.Ops {
		step = i
		if otherViolations(c) > 3 {
			break
		}
		if op.Key < 0 || op.Key >= len(kvKeys) {
			op.Key = 0
		}
		env.S.Note(fmt.Sprintf("%s:%d:%s:%d", cfg.Store, op.C, op.K, op.Key))
		if op.C == 0 {
			if op.K != "batch" {
				continue
			}
			w, err := st.Writer()
			if err != nil {
				viol("writer-error", "Writer(): %v", err)
				break
			}
			b, err := buildKVBatch(w, op)
			if err != nil {
				viol("writer-error", "NewBatchEx: %v", err)
				break
			}
			refused := false
			for _, bo := range op.Ops {
				if bo.T == "merge" && poisoned([]byte(bo.Val)) {
					refused = true
				}
			}
			if refused {
				// the merge operator refuses an operand of this batch: ExecuteBatch has to fail and leave the store as it
				// was (every later read is still compared with the map without this batch)
				c.Fault("merge_operator_refused")
				if err := w.ExecuteBatch(b); err == nil {
					viol("refused-batch-acknowledged", "ExecuteBatch returned nil for a batch one of whose merges the merge operator refused")
				}
				_ = w.Close()
				continue
			}
			applyKVBatch(m, mo, op)
			if err := w.ExecuteBatch(b); err != nil {
				viol("writer-error", "ExecuteBatch: %v", err)
				break
			}
			_ = w.Close()
			if gate != nil {
				if gate.settle(op.MR) {
					c.Probe("moss_merger_ran_until_idle")
				} else {
					c.Fault("moss_merger_stalled_over_batch")
				}
			}
			c.Probe("batch")
			continue
		}
		rd := readers[op.C]
		if op.K == "open" {
			if rd != nil {
				continue
			}
			r, err := st.Reader()
			if err != nil {
				viol("reader-error", "Reader(): %v", err)
				break
			}
			readers[op.C] = &kvReader{r: r, m: m.clone(), born: i}
			c.Probe("reader_opened")
			continue
		}
		if rd == nil {
			continue
		}
		if rd.born < i-1 {
			c.Probe("reader_used_after_later_writes")
		}
		switch op.K {
		case "close":
			for j := range rd.its {
				if rd.its[j] != nil {
					_ = rd.its[j].Close()
				}
			}
			if err := rd.r.Close(); err != nil {
				viol("reader-error", "reader Close: %v", err)
			}
			delete(readers, op.C)
		case "get":
			checks++
			k := kvKeys[op.Key]
			got, err := rd.r.Get(k)
			want, ok := rd.m[string(k)]
			if err != nil || (got == nil) != !ok || !same(got, want) {
				viol("get-differs", "reader opened at op %d: Get(%x) = %x (err %v), ordered map at reader creation: %x present=%v", rd.born, k, got, err, want, ok)
			}
		case "multiget":
			checks++
			var ks [][]byte
			for _, ki := range op.Ks {
				if ki >= 0 && ki < len(kvKeys) {
					ks = append(ks, kvKeys[ki])
				}
			}
			var got [][]byte
			var err error
			func() {
				defer func() {
					if r := recover(); r != nil {
						err = fmt.Errorf("panic: %v", r)
					}
				}()
				got, err = rd.r.MultiGet(ks)
			}()
			if err != nil && strings.HasPrefix(err.Error(), "panic:") {
				viol("multiget-panics", "MultiGet(%d keys): %v", len(ks), err)
				continue
			}
			if err != nil || len(got) != len(ks) {
				viol("get-differs", "MultiGet: %d values for %d keys, err %v", len(got), len(ks), err)
				continue
			}
			for j, k := range ks {
				want, ok := rd.m[string(k)]
				if (got[j] == nil) != !ok || !same(got[j], want) {
					viol("get-differs", "reader opened at op %d: MultiGet[%d](%x) = %x, ordered map: %x present=%v", rd.born, j, k, got[j], want, ok)
				}
			}
		case "prefix":
			if rd.its[op.It] != nil {
				_ = rd.its[op.It].Close()
			}
			p := kvKeys[op.Key]
			if op.A < 0 {
				p = p[:0] // empty prefix: everything
			}
			rd.its[op.It] = rd.r.PrefixIterator(p)
			rd.mits[op.It] = newModelIter(rd.m, func(k string) bool { return strings.HasPrefix(k, string(p)) }, p, fmt.Sprintf("PrefixIterator(%x)", p))
			checkIt("open", rd.its[op.It], rd.mits[op.It])
			c.Probe("prefix_iterator")
			if len(p) > 0 && p[len(p)-1] == 0xff {
				c.Probe("prefix_ending_in_ff")
			}
		case "range":
			if rd.its[op.It] != nil {
				_ = rd.its[op.It].Close()
			}
			var a, z []byte
			if op.A >= 0 && op.A < len(kvKeys) {
				a = kvKeys[op.A]
			}
			if op.Z >= 0 && op.Z < len(kvKeys) {
				z = kvKeys[op.Z]
			}
			rd.its[op.It] = rd.r.RangeIterator(a, z)
			rd.mits[op.It] = newModelIter(rd.m, func(k string) bool {
				return (a == nil || k >= string(a)) && (z == nil || k < string(z))
			}, a, fmt.Sprintf("RangeIterator(%x,%x)", a, z))
			checkIt("open", rd.its[op.It], rd.mits[op.It])
			c.Probe("range_iterator")
		case "next":
			if it := rd.its[op.It]; it != nil {
				mi := rd.mits[op.It]
				if mi.pos < len(mi.keys) { // Next on an exhausted iterator is not defined by the interface
					it.Next()
					mi.pos++
					checkIt("Next", it, mi)
				}
			}
		case "seek":
			if it := rd.its[op.It]; it != nil {
				mi := rd.mits[op.It]
				k := kvKeys[op.Key]
				// only seek to keys at or beyond the start of the range (the other case is not defined)
				if bytes.Compare(k, mi.start) >= 0 {
					it.Seek(k)
					was := mi.pos
					mi.pos = sort.SearchStrings(mi.keys, string(k))
					if mi.pos < was {
						c.Probe("seek_backward")
					}
					if _, live := rd.m[string(k)]; !live {
						c.Probe("seek_to_absent_key")
					}
					checkIt(fmt.Sprintf("Seek(%x)", k), it, mi)
					c.Probe("seek")
				}
			}
		case "cur":
			if it := rd.its[op.It]; it != nil {
				checkIt("Current", it, rd.mits[op.It])
			}
		case "itclose":
			if it := rd.its[op.It]; it != nil {
				_ = it.Close()
				rd.its[op.It], rd.mits[op.It] = nil, nil
			}
		}
	}
	// final full scan through a fresh reader
	if r, err := st.Reader(); err == nil {
		it := r.RangeIterator(nil, nil)
		mi := newModelIter(m, func(string) bool { return true }, nil, "final full scan")
		for {
			checkIt("scan", it, mi)
			if mi.pos >= len(mi.keys) || len(c.Res.Violations) > 3 {
				break
			}
			it.Next()
			mi.pos++
		}
		_ = it.Close()
		_ = r.Close()
	}
	for _, rd := range readers {
		for j := range rd.its {
			if rd.its[j] != nil {
				_ = rd.its[j].Close()
			}
		}
		_ = rd.r.Close()
	}
	gate.done()
	if err := st.Close(); err != nil {
		viol("close-error", "store Close: %v", err)
	}
	c.Res.Completed = true
	c.Res.Checks = checks
	c.Res.NonTrivial = checks > 10 && c.Res.Probes["reader_used_after_later_writes"] > 0
	c.Res.Summary = fmt.Sprintf("store=%s mo=%s ops=%d checks=%d", cfg.Store, cfg.MO, len(wl.Ops), checks)
}

// buildKVBatch builds the store batch of op; with op.Ex it goes through NewBatchEx and places keys and values in the
// buffer the store hands out, the way upsidedown's batchRows does.
func buildKVBatch(w store.KVWriter, op KVOp) (store.KVBatch, error) {
	if !op.Ex {
		b := w.NewBatch()
		for _, bo := range op.Ops {
			if bo.Key < 0 || bo.Key >= len(kvKeys) {
				continue
			}
			k := kvKeys[bo.Key]
			switch bo.T {
			case "set":
				b.Set(k, []byte(bo.Val))
			case "del":
				b.Delete(k)
			case "merge":
				b.Merge(k, []byte(bo.Val))
			}
		}
		return b, nil
	}
	var opts store.KVBatchOptions
	for _, bo := range op.Ops {
		if bo.Key < 0 || bo.Key >= len(kvKeys) {
			continue
		}
		kl, vl := len(kvKeys[bo.Key]), len(bo.Val)
		switch bo.T {
		case "set":
			opts.NumSets++
			opts.TotalBytes += kl + vl
		case "del":
			opts.NumDeletes++
			opts.TotalBytes += kl
		case "merge":
			opts.NumMerges++
			opts.TotalBytes += 2 * (kl + vl)
		}
	}
	buf, b, err := w.NewBatchEx(opts)
	if err != nil {
		return nil, err
	}
	put := func(x []byte) []byte {
		// like upsidedown: plain sub-slices of the store's buffer (moss locates them by their capacity)
		n := copy(buf, x)
		r := buf[:n]
		buf = buf[n:]
		return r
	}
	for _, bo := range op.Ops {
		if bo.Key < 0 || bo.Key >= len(kvKeys) {
			continue
		}
		switch bo.T {
		case "set":
			k := put(kvKeys[bo.Key])
			b.Set(k, put([]byte(bo.Val)))
		case "del":
			b.Delete(put(kvKeys[bo.Key]))
		case "merge":
			k := put(kvKeys[bo.Key])
			b.Merge(k, put([]byte(bo.Val)))
		}
	}
	return b, nil
}

// applyKVBatch applies op to the ordered-map model.
func applyKVBatch(m kvModel, mo store.MergeOperator, op KVOp) {
	for _, bo := range op.Ops {
		if bo.Key < 0 || bo.Key >= len(kvKeys) {
			continue
		}
		k := kvKeys[bo.Key]
		switch bo.T {
		case "set":
			m[string(k)] = []byte(bo.Val)
		case "del":
			delete(m, string(k))
		case "merge":
			nv, _ := mo.FullMerge(k, m[string(k)], [][]byte{[]byte(bo.Val)})
			m[string(k)] = nv
		}
	}
}

func otherViolations(c *core.Ctx) int {
	n := 0
	for _, v := range c.Res.Violations {
		if v.Clause != "multiget-panics" {
			n++
		}
	}
	return n
}

func init() {
	core.Scenarios["kv"] = kvScenario
	core.PropertyScenario["C15"] = "kv"
}
