package scen

import (
	"context"
	"fmt"
	"path/filepath"
	"sort"
	"strconv"
	"strings"

	"bsim/core"
	"bsim/model"
	"bsim/sched"

	"github.com/blevesearch/bleve/v2"
	"github.com/blevesearch/bleve/v2/index/scorch"
	index "github.com/blevesearch/bleve_index_api"
)

// ConcCfg configures the concurrent-readers scenario (C04).
type ConcCfg struct {
	Shared    bool           `json:"shared,omitempty"` // writers share ids: the history is checked for linearizability (linear.go)
	Index     model.IndexCfg `json:"index"`
	Sched     sched.Config   `json:"sched"`
	NDocs     int            `json:"ndocs"`
	AnalysisQ int            `json:"analysis_q"`
}

// ObsOp is one observation of an observer client.
type ObsOp struct {
	K  string `json:"k"`            // search | count | doc | marker
	W  int    `json:"w,omitempty"`  // writer addressed (doc, marker)
	D  int    `json:"d,omitempty"`  // doc index (doc); NDocs = the marker document
	Pz int    `json:"pz,omitempty"` // explicit yields before the observation
}

// HeldOp is one step of a held-reader client.
type HeldOp struct {
	Wait    int `json:"wait"`    // yields before opening the reader
	Queries int `json:"queries"` // how often the reader is re-queried
	Gap     int `json:"gap"`     // yields between queries
}

// ConcWL is the workload of the conc scenario.
type ConcWL struct {
	Clients     [][]LinOp       `json:"clients,omitempty"` // shared-id mode
	Writers     [][]model.Batch `json:"writers"`
	Observers   [][]ObsOp       `json:"observers"`
	Held        []HeldOp        `json:"held,omitempty"`
	ForceMerges int             `json:"force_merges,omitempty"`
}

// genConcTiny is the fixed small scenario of the bounded enumeration (tier "enum"): two writers with two batches
// each, one observer, one held reader, one forced merge, scorch on disk with in-memory merges enabled.
func genConcTiny() (ConcCfg, ConcWL) {
	cfg := ConcCfg{NDocs: 2, AnalysisQ: 1, Sched: sched.Config{Policy: sched.PolUniform}}
	cfg.Index = model.IndexCfg{Engine: "scorch", NapMS: 0, Workers: 1, MinSegsMem: 2, MaxSegmentsPerTier: 2, SegmentsPerMergeTask: 2, FloorSegmentSize: 1}
	wl := ConcWL{ForceMerges: 1}
	wl.Writers = [][]model.Batch{
		{{Docs: []model.DocOp{{ID: model.WriterID(0, 0), Ver: 1}, {ID: model.WriterID(0, 1), Ver: 2}}}, {Docs: []model.DocOp{{ID: model.WriterID(0, 0), Del: true}, {ID: model.WriterID(0, 1), Ver: 3}}}},
		{{Docs: []model.DocOp{{ID: model.WriterID(1, 0), Ver: 1}}}, {Docs: []model.DocOp{{ID: model.WriterID(1, 0), Ver: 2}, {ID: model.WriterID(1, 1), Ver: 3}}}},
	}
	wl.Observers = [][]ObsOp{{{K: "search"}, {K: "count"}, {K: "doc", W: 0, D: 0}, {K: "search"}, {K: "marker", W: 1}}}
	wl.Held = []HeldOp{{Wait: 2, Queries: 2, Gap: 3}}
	return cfg, wl
}

func genConc(c *core.Ctx) (ConcCfg, ConcWL) {
	if c.Spec.Tier == "enum" {
		return genConcTiny()
	}
	g := c.Gen
	cfg := ConcCfg{NDocs: 2 + g.Intn(3), AnalysisQ: 1 + g.Intn(3)}
	switch g.Intn(10) {
	case 0, 1:
		cfg.Index = udcCfg("gtreap")
	case 2:
		cfg.Index = udcCfg("boltdb")
	case 3:
		cfg.Index = model.GenIndexCfg(g)
		cfg.Index.InMem = true
	default:
		cfg.Index = model.GenIndexCfg(g)
		cfg.Index.Unsafe = g.Intn(2) == 0
	}
	cfg.Sched = genSchedCfg(g, cfg.Index.Engine == "scorch")
	cfg.Shared = g.Intn(10) < 3
	wl := ConcWL{}
	nw := 1 + g.Intn(3)
	if cfg.Shared {
		return cfg, genLinearWL(g, cfg)
	}
	for w := 0; w < nw; w++ {
		n := 3 + g.Intn(6)
		wl.Writers = append(wl.Writers, genWriterBatches(g, w, cfg.NDocs, n))
	}
	no := 1 + g.Intn(3)
	for o := 0; o < no; o++ {
		var ops []ObsOp
		n := 4 + g.Intn(10)
		for i := 0; i < n; i++ {
			op := ObsOp{K: []string{"search", "search", "count", "doc", "marker", "count"}[g.Intn(6)], W: g.Intn(nw), D: g.Intn(cfg.NDocs + 1), Pz: g.Intn(6)}
			ops = append(ops, op)
		}
		wl.Observers = append(wl.Observers, ops)
	}
	nh := g.Intn(3)
	for h := 0; h < nh; h++ {
		wl.Held = append(wl.Held, HeldOp{Wait: g.Intn(40), Queries: 2 + g.Intn(3), Gap: 5 + g.Intn(40)})
	}
	if cfg.Index.Engine == "scorch" && !cfg.Index.InMem && g.Intn(2) == 0 {
		wl.ForceMerges = 1 + g.Intn(2)
	}
	return cfg, wl
}

// concWriterStates adds the marker document (id w<i>-m, version 1000+seq) to every batch so that the
// documents of a writer identify the prefix uniquely, and precomputes the prefix states.
func concBatches(w, ndocs int, bs []model.Batch) []model.Batch {
	out := make([]model.Batch, len(bs))
	for k, b := range bs {
		nb := model.Batch{Docs: append([]model.DocOp(nil), b.Docs...), Ints: append([]model.IntOp(nil), b.Ints...)}
		nb.Docs = append(nb.Docs, model.DocOp{ID: model.WriterID(w, ndocs), Ver: 1000 + k + 1})
		nb.Ints = append(nb.Ints, model.IntOp{Key: model.MarkerKey(w), Val: strconv.Itoa(k + 1)})
		out[k] = nb
	}
	return out
}

type concOracle struct {
	c        *core.Ctx
	s        *sched.Sched
	engine   string
	ndocs    int // including the marker doc
	prefixes []*model.WriterPrefixes
	tracks   []*writerTrack
}

// feasible returns the prefixes k of writer w, lo <= k <= hi, whose state satisfies pred.
func (o *concOracle) feasible(w, lo, hi int, pred func(st *model.MapModel) bool) []int {
	var out []int
	for k := lo; k <= hi && k < len(o.prefixes[w].States); k++ {
		if pred(o.prefixes[w].States[k]) {
			out = append(out, k)
		}
	}
	return out
}

func verOf(st *model.MapModel, id string) string {
	if v, ok := st.Docs[id]; ok {
		return fmt.Sprintf("%s#%d", id, v)
	}
	return ""
}

// judge classifies an observation of writer w: all = every prefix matching the observation (0..n).
func (o *concOracle) judge(client string, obs string, w int, all []int, ackedBefore, lo int, invokedAfter int, what string) (newLo int) {
	sig := map[string]string{"engine": o.engine, "obs": obs}
	if len(all) == 0 {
		o.c.Violate("partial-batch", sig, o.s.Steps, "%s %s: writer %d: the observed state matches no prefix of its batches: %s", client, obs, w, what)
		return lo
	}
	mx := all[len(all)-1]
	mn := all[0]
	if mn > invokedAfter {
		o.c.Violate("future-read", sig, o.s.Steps, "%s %s: writer %d: state after %v batches observed but only %d were invoked: %s", client, obs, w, all, invokedAfter, what)
		return lo
	}
	if mx < ackedBefore {
		o.c.Violate("stale-read", sig, o.s.Steps, "%s %s: writer %d: state after %v batches observed, but %d batches had been acknowledged before the read began: %s", client, obs, w, all, ackedBefore, what)
		return lo
	}
	if mx < lo {
		o.c.Violate("non-monotonic-read", sig, o.s.Steps, "%s %s: writer %d: state after %v batches observed, but an earlier read by the same client had already seen %d: %s", client, obs, w, all, lo, what)
		return lo
	}
	// smallest prefix consistent with everything known
	for _, k := range all {
		if k >= ackedBefore && k >= lo {
			return k
		}
	}
	return lo
}

func concScenario(c *core.Ctx) {
	var cfg ConcCfg
	var wl ConcWL
	if len(c.Spec.Config) == 0 || len(c.Spec.Workload) == 0 {
		cfg, wl = genConc(c)
		c.Spec.Config, c.Spec.Workload = nil, nil
	}
	cfg = core.LoadOrGen(&c.Spec.Config, func() ConcCfg { return cfg })
	wl = core.LoadOrGen(&c.Spec.Workload, func() ConcWL { return wl })
	if cfg.Shared {
		linearScenario(c, cfg, wl)
		return
	}
	env := NewEnv(c, cfg.Sched, cfg.AnalysisQ)
	s := env.S
	defer env.Finish()
	path := filepath.Join(c.Dir, "idx")
	icfg := cfg.Index
	icfg.AsyncCB = "bsim"
	var idx bleve.Index
	s.Spawn("setup", func() {
		var err error
		idx, err = icfg.Create(path, model.Mapping(false))
		if err != nil {
			c.Res.Harness = "create: " + err.Error()
		}
	})
	if !env.RunClients("setup") || c.Res.Harness != "" {
		return
	}
	nw := len(wl.Writers)
	nd := cfg.NDocs + 1
	o := &concOracle{c: c, s: s, engine: cfg.Index.Engine, ndocs: nd}
	batches := make([][]model.Batch, nw)
	for w := range wl.Writers {
		batches[w] = concBatches(w, cfg.NDocs, wl.Writers[w])
		// NewWriterPrefixes adds the marker internal key itself
		plain := make([]model.Batch, len(batches[w]))
		for k, b := range batches[w] {
			plain[k] = model.Batch{Docs: b.Docs}
		}
		o.prefixes = append(o.prefixes, model.NewWriterPrefixes(w, nd, plain))
		o.tracks = append(o.tracks, &writerTrack{invStep: make([]int, len(batches[w])+1), ackStep: make([]int, len(batches[w])+1), retStep: make([]int, len(batches[w])+1)})
	}
	snapshotAcked := func() []int {
		a := make([]int, nw)
		for w, tr := range o.tracks {
			a[w] = tr.acked
		}
		return a
	}
	observations := 0

	for w := range wl.Writers {
		w := w
		s.Spawn(fmt.Sprintf("w%d", w), func() {
			tr := o.tracks[w]
			for k, mb := range batches[w] {
				bb, err := BuildBatch(idx, mb, false)
				if err != nil {
					c.Res.Harness = "build batch: " + err.Error()
					return
				}
				tr.invoked = k + 1
				tr.invStep[k+1] = s.Steps
				if err := idx.Batch(bb); err != nil {
					c.Violate("batch-error", nil, s.Steps, "writer %d batch %d: %v", w, k+1, err)
					return
				}
				// "acknowledged" for readers = the call returned (visibility, not durability)
				tr.acked = k + 1
				tr.retStep[k+1] = s.Steps
			}
		})
	}
	for oi, ops := range wl.Observers {
		oi, ops := oi, ops
		name := fmt.Sprintf("obs%d", oi)
		s.Spawn(name, func() {
			lo := make([]int, nw)
			for _, op := range ops {
				for i := 0; i < op.Pz; i++ {
					s.Yield("obs-pause")
				}
				if op.W >= nw {
					op.W = 0
				}
				if op.D > cfg.NDocs {
					op.D = cfg.NDocs
				}
				before := snapshotAcked()
				observations++
				switch op.K {
				case "search":
					req := bleve.NewSearchRequestOptions(bleve.NewMatchAllQuery(), nw*nd+10, 0, false)
					req.Fields = []string{"ver"}
					req.AddFacet("tags", bleve.NewFacetRequest("tags", 10)) // visits the doc values of every hit
					res, err := idx.Search(req)
					if err != nil {
						c.Violate("read-error", nil, s.Steps, "%s search: %v", name, err)
						return
					}
					got := map[string]string{}
					dup := false
					wantTags := map[string]int{}
					for _, h := range res.Hits {
						if _, seen := got[h.ID]; seen {
							dup = true
						}
						got[h.ID] = fmt.Sprint(h.Fields["ver"])
						if v, ok := verNumber(got[h.ID]); ok {
							for _, t := range model.MakeDoc(h.ID, v, false).Tags {
								wantTags[t]++
							}
						}
					}
					// the facet is computed from the same hits: its counts are those of the versions returned
					if fr := res.Facets["tags"]; fr != nil && !dup {
						gotTags := map[string]int{}
						if fr.Terms != nil {
							for _, tf := range fr.Terms.Terms() {
								gotTags[tf.Term] = tf.Count
							}
						}
						if fmt.Sprint(gotTags) != fmt.Sprint(wantTags) {
							c.Violate("facet-disagrees-with-hits", map[string]string{"engine": o.engine, "obs": "search"}, s.Steps, "%s search: tags facet %v, but the versions returned in the same result carry %v (hits %v)", name, gotTags, wantTags, got)
						}
					}
					if dup || int(res.Total) != len(res.Hits) {
						c.Violate("partial-batch", map[string]string{"engine": o.engine, "obs": "search"}, s.Steps, "%s search: Total=%d hits=%d duplicate=%v", name, res.Total, len(res.Hits), dup)
					}
					for w := 0; w < nw; w++ {
						all := o.feasible(w, 0, len(o.prefixes[w].States)-1, func(st *model.MapModel) bool {
							for d := 0; d < nd; d++ {
								id := model.WriterID(w, d)
								if verOf(st, id) != got[id] {
									return false
								}
							}
							return true
						})
						lo[w] = o.judge(name, "search", w, all, before[w], lo[w], o.tracks[w].invoked, fmt.Sprint(got))
					}
				case "count":
					n, err := idx.DocCount()
					if err != nil {
						c.Violate("read-error", nil, s.Steps, "%s DocCount: %v", name, err)
						return
					}
					// some combination of per-writer prefixes within the bounds must add up to the count
					ok := false
					var rec func(w int, sum int) bool
					mins := make([]int, nw)
					rec = func(w int, sum int) bool {
						if w == nw {
							return uint64(sum) == n
						}
						for k := max(before[w], lo[w]); k <= o.tracks[w].invoked; k++ {
							if rec(w+1, sum+len(o.prefixes[w].States[k].Docs)) {
								mins[w] = k
								return true
							}
						}
						return false
					}
					ok = rec(0, 0)
					if !ok {
						// classify: is it explainable at all (ignoring recency / monotonicity)?
						var any func(w, sum int) bool
						any = func(w, sum int) bool {
							if w == nw {
								return uint64(sum) == n
							}
							for k := 0; k <= o.tracks[w].invoked; k++ {
								if any(w+1, sum+len(o.prefixes[w].States[k].Docs)) {
									return true
								}
							}
							return false
						}
						clause := "partial-batch"
						if any(0, 0) {
							clause = "stale-or-non-monotonic-count"
						}
						c.Violate(clause, map[string]string{"engine": o.engine, "obs": "count"}, s.Steps, "%s DocCount=%d cannot be explained by per-writer prefixes within acked-before=%v, seen-before=%v, invoked=%v", name, n, before, lo, invokedOf(o.tracks))
					}
				case "doc", "marker":
					w := op.W
					var got string
					if op.K == "doc" {
						id := model.WriterID(w, op.D)
						d, err := idx.Document(id)
						if err != nil {
							c.Violate("read-error", nil, s.Steps, "%s Document: %v", name, err)
							return
						}
						if sd := model.StoredOf(d); sd != nil && len(sd["ver"]) == 1 {
							got = sd["ver"][0]
						}
						all := o.feasible(w, 0, len(o.prefixes[w].States)-1, func(st *model.MapModel) bool { return verOf(st, id) == got })
						lo[w] = o.judge(name, "doc", w, all, before[w], lo[w], o.tracks[w].invoked, id+"="+got)
					} else {
						v, err := idx.GetInternal([]byte(model.MarkerKey(w)))
						if err != nil {
							c.Violate("read-error", nil, s.Steps, "%s GetInternal: %v", name, err)
							return
						}
						got = string(v)
						all := o.feasible(w, 0, len(o.prefixes[w].States)-1, func(st *model.MapModel) bool { return st.Ints[model.MarkerKey(w)] == got })
						lo[w] = o.judge(name, "marker", w, all, before[w], lo[w], o.tracks[w].invoked, "marker="+got)
					}
				}
			}
		})
	}
	for hi, h := range wl.Held {
		hi, h := hi, h
		name := fmt.Sprintf("held%d", hi)
		s.Spawn(name, func() {
			for i := 0; i < h.Wait; i++ {
				s.Yield("held-wait")
			}
			adv, err := idx.Advanced()
			if err != nil {
				return
			}
			before := snapshotAcked()
			r, err := adv.Reader()
			if err != nil {
				c.Violate("read-error", nil, s.Steps, "%s Reader(): %v", name, err)
				return
			}
			invAfter := invokedOf(o.tracks)
			first := ""
			for q := 0; q < h.Queries; q++ {
				snap, err := readHeld(r, nw, nd)
				if err != nil {
					c.Violate("read-error", nil, s.Steps, "%s query %d: %v", name, q, err)
					break
				}
				observations++
				if q == 0 {
					first = snap.String()
					// internal consistency of the view and recency bounds
					sum := 0
					for w := 0; w < nw; w++ {
						obs := model.WriterObs{Marker: snap.markers[w], Vers: snap.vers}
						k, err := o.prefixes[w].Decompose(obs)
						if err != nil {
							c.Violate("partial-batch", map[string]string{"engine": o.engine, "obs": "reader"}, s.Steps, "%s: %v", name, err)
							continue
						}
						sum += len(o.prefixes[w].States[k].Docs)
						o.judge(name, "reader", w, []int{k}, before[w], 0, invAfter[w], snap.String())
					}
					if len(snap.enum) != sum {
						c.Violate("reader-enum-mismatch", map[string]string{"engine": o.engine}, s.Steps, "%s: ids enumerated=%d but documents found=%d in one reader (DocCount=%d)", name, len(snap.enum), sum, snap.count)
					} else if snap.count != uint64(sum) {
						c.Violate("reader-count-mismatch", map[string]string{"engine": o.engine}, s.Steps, "%s: DocCount=%d but the same reader enumerates %d ids and finds %d documents", name, snap.count, len(snap.enum), sum)
					}
					if want := snap.dvExpected(); fmt.Sprint(snap.dv) != fmt.Sprint(want) && len(snap.enum) == sum {
						c.Violate("reader-docvalues-wrong", map[string]string{"engine": o.engine}, s.Steps, "%s: doc values visited through the reader %v, but the documents the same reader returns carry %v", name, snap.dv, want)
					}
					c.Probe("held_reader_opened")
				} else if snap.String() != first {
					c.Violate("reader-unstable", map[string]string{"engine": o.engine}, s.Steps, "%s: query %d returned\n  %s\nbut the first query on the same reader returned\n  %s", name, q, snap.String(), first)
				}
				for i := 0; i < h.Gap; i++ {
					s.Yield("held-gap")
				}
			}
			if err := r.Close(); err != nil {
				c.Violate("read-error", nil, s.Steps, "%s reader Close: %v", name, err)
			}
		})
	}
	if wl.ForceMerges > 0 {
		s.Spawn("forcemerge", func() {
			adv, _ := idx.Advanced()
			sc, ok := adv.(*scorch.Scorch)
			if !ok {
				return
			}
			for i := 0; i < wl.ForceMerges; i++ {
				for j := 0; j < 10; j++ {
					s.Yield("forcemerge-wait")
				}
				_ = sc.ForceMerge(context.Background(), nil)
				c.Probe("force_merge")
			}
		})
	}
	if !env.RunClients("workload") {
		return
	}
	c.Res.Completed = true
	c.Res.Checks = observations
	// final state = everything
	final := model.NewMapModel()
	var ids, keys []string
	for w := range batches {
		st := o.prefixes[w].States[len(o.prefixes[w].States)-1]
		for id, v := range st.Docs {
			final.Docs[id] = v
		}
		final.Ints[model.MarkerKey(w)] = st.Ints[model.MarkerKey(w)]
		keys = append(keys, model.MarkerKey(w))
		for d := 0; d < nd; d++ {
			ids = append(ids, model.WriterID(w, d))
		}
	}
	s.Spawn("final", func() {
		st, err := ReadState(idx, ids, keys)
		if err != nil {
			c.Violate("read-error", nil, s.Steps, "final read: %v", err)
			return
		}
		if bad := CheckState(st, final, ids, keys, false); len(bad) > 0 {
			c.Violate("final-state-wrong", map[string]string{"engine": o.engine}, s.Steps, "after all writers finished: %s", strings.Join(bad, "; "))
		}
		if err := idx.Close(); err != nil {
			c.Violate("close-error", nil, s.Steps, "Close: %v", err)
		}
	})
	if !env.RunClients("final") {
		return
	}
	for _, e := range env.AsyncErrors() {
		if strings.Contains(e, "panic") {
			c.ViolateProp("C11", "async-panic", nil, s.Steps, "background panic: %s", e)
		} else {
			c.Violate("async-error", nil, s.Steps, "background error: %s", e)
		}
	}
	for _, p := range s.Panics() {
		c.ViolateProp("C11", "panic", nil, s.Steps, "%s", p)
	}
	bg := s.Points["bolt.committed"] + s.Points["merge.introduced"] + s.Points["memmerge.task.written"]
	c.Res.NonTrivial = observations > 0 && (bg > 0 || cfg.Index.Engine != "scorch" || cfg.Index.InMem)
	c.Res.Summary = fmt.Sprintf("engine=%s/%s writers=%d observers=%d held=%d observations=%d steps=%d", cfg.Index.Engine, cfg.Index.KV, nw, len(wl.Observers), len(wl.Held), observations, s.Steps)
}

func invokedOf(ts []*writerTrack) []int {
	out := make([]int, len(ts))
	for i, t := range ts {
		out[i] = t.invoked
	}
	return out
}

type heldSnap struct {
	count   uint64
	vers    map[string]string
	markers []string
	enum    []string
	dv      []string // per enumerated id: the doc values of ver and tags as the reader visits them
}

// verNumber extracts n from a version string "id#n".
func verNumber(ver string) (int, bool) {
	i := strings.LastIndexByte(ver, '#')
	if i < 0 {
		return 0, false
	}
	n, err := strconv.Atoi(ver[i+1:])
	return n, err == nil
}

func (h *heldSnap) String() string {
	var ids []string
	for id, v := range h.vers {
		if v != "" {
			ids = append(ids, v)
		}
		_ = id
	}
	sort.Strings(ids)
	return fmt.Sprintf("count=%d markers=%v docs=%v enum=%v docvalues=%v", h.count, h.markers, ids, h.enum, h.dv)
}

func readHeld(r index.IndexReader, nw, nd int) (*heldSnap, error) {
	h := &heldSnap{vers: map[string]string{}}
	var err error
	if h.count, err = r.DocCount(); err != nil {
		return nil, err
	}
	for w := 0; w < nw; w++ {
		v, err := r.GetInternal([]byte(model.MarkerKey(w)))
		if err != nil {
			return nil, err
		}
		h.markers = append(h.markers, string(v))
		for d := 0; d < nd; d++ {
			id := model.WriterID(w, d)
			doc, err := r.Document(id)
			if err != nil {
				return nil, err
			}
			if sd := model.StoredOf(doc); sd != nil && len(sd["ver"]) == 1 {
				h.vers[id] = sd["ver"][0]
			}
		}
	}
	dr, err := r.DocIDReaderAll()
	if err != nil {
		return nil, err
	}
	var internal []index.IndexInternalID
	for {
		id, err := dr.Next()
		if err != nil {
			dr.Close()
			return nil, err
		}
		if id == nil {
			break
		}
		ext, err := r.ExternalID(id)
		if err != nil {
			dr.Close()
			return nil, err
		}
		h.enum = append(h.enum, ext)
		internal = append(internal, append(index.IndexInternalID(nil), id...))
	}
	dr.Close()
	// doc values through the same reader: ver has persisted doc values, tags goes through the un-inverting cache
	dvr, err := r.DocValueReader([]string{"ver", "tags"})
	if err != nil {
		return nil, err
	}
	for i, id := range internal {
		var ver string
		var tags []string
		if err := dvr.VisitDocValues(id, func(field string, term []byte) {
			if field == "ver" {
				ver = string(term)
			} else if field == "tags" {
				tags = append(tags, string(term))
			}
		}); err != nil {
			return nil, err
		}
		sort.Strings(tags)
		h.dv = append(h.dv, fmt.Sprintf("%s:%s%v", h.enum[i], ver, tags))
	}
	sort.Strings(h.dv)
	sort.Strings(h.enum)
	return h, nil
}

// dvExpected is what readHeld's doc-value lines must be for the versions the same reader returns from Document().
func (h *heldSnap) dvExpected() []string {
	var out []string
	for id, v := range h.vers {
		if v == "" {
			continue
		}
		n, _ := verNumber(v)
		tags := append([]string(nil), model.MakeDoc(id, n, false).Tags...)
		sort.Strings(tags)
		out = append(out, fmt.Sprintf("%s:%s%v", id, v, tags))
	}
	sort.Strings(out)
	return out
}

func init() {
	core.Scenarios["conc"] = concScenario
	core.PropertyScenario["C04"] = "conc"
}
