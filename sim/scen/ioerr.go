package scen

import (
	"fmt"
	"hash/fnv"
	"os"
	"path/filepath"
	"sync"
	"syscall"

	"bsim/core"
	"bsim/sched"

	"github.com/RoaringBitmap/roaring/v2"
	"github.com/blevesearch/bleve/v2/index/scorch"
	segment "github.com/blevesearch/scorch_segment_api/v2"
	zapv17 "github.com/blevesearch/zapx/v17"
)

// IOErrCfg configures segment-file I/O faults injected through the segment plugin registry (an existing
// seam): the k-th MergeUsing / OpenUsing call of the simulated instance fails with EIO or ENOSPC.
type IOErrCfg struct {
	Rate      int  `json:"rate"`       // each call fails with probability 1/Rate
	Max       int  `json:"max"`        // at most this many faults per run
	LeaveFile bool `json:"leave_file"` // a failed merge leaves a partial file behind
}

func genIOErr(g *sched.Rand) *IOErrCfg {
	return &IOErrCfg{Rate: 2 + g.Intn(5), Max: 1 + g.Intn(3), LeaveFile: g.Intn(2) == 0}
}

const simzapType = "simzap"

type ioFaults struct {
	mu     sync.Mutex
	c      *core.Ctx
	cfg    *IOErrCfg
	fired  int
	active bool
	salt   int
}

var curFaults *ioFaults

type simzapPlugin struct{ zapv17.ZapPlugin }

func (p *simzapPlugin) Type() string { return simzapType }

// should decides whether the call on path fails. The decision is a function of (per-run salt, file name), not of
// the order of calls: scorch opens the files of one persist round in map-iteration order.
func (f *ioFaults) should(kind, path string) error {
	if f == nil {
		return nil
	}
	f.mu.Lock()
	defer f.mu.Unlock()
	if !f.active || f.fired >= f.cfg.Max || f.c.Sched == nil || f.c.Sched.Me() == "" {
		return nil
	}
	h := fnv.New32a()
	fmt.Fprintf(h, "%d|%s|%s", f.salt, kind, filepath.Base(path))
	if int(h.Sum32()%uint32(f.cfg.Rate)) != 0 {
		return nil
	}
	f.fired++
	f.c.Fault("ioerr_" + kind)
	if f.fired%2 == 0 {
		return &os.PathError{Op: kind, Path: "injected", Err: syscall.ENOSPC}
	}
	return &os.PathError{Op: kind, Path: "injected", Err: syscall.EIO}
}

func (p *simzapPlugin) OpenUsing(path string, config map[string]interface{}) (segment.Segment, error) {
	if err := curFaults.should("open", path); err != nil {
		return nil, err
	}
	return p.ZapPlugin.OpenUsing(path, config)
}

func (p *simzapPlugin) MergeUsing(segments []segment.Segment, drops []*roaring.Bitmap, path string,
	closeCh chan struct{}, s segment.StatsReporter, config map[string]interface{}) ([][]uint64, uint64, error) {
	if err := curFaults.should("merge", path); err != nil {
		if curFaults.cfg.LeaveFile {
			_ = os.WriteFile(path, []byte("partial merge output"), 0o600)
		}
		return nil, 0, err
	}
	return p.ZapPlugin.MergeUsing(segments, drops, path, closeCh, s, config)
}

func init() {
	scorch.RegisterSegmentPlugin(&simzapPlugin{}, false)
}

func installIOFaults(c *core.Ctx, cfg *IOErrCfg) *ioFaults {
	f := &ioFaults{c: c, cfg: cfg, active: true, salt: c.Tape.Intn(1 << 30)}
	curFaults = f
	return f
}

func (f *ioFaults) firedCount() int {
	f.mu.Lock()
	defer f.mu.Unlock()
	return f.fired
}

func (f *ioFaults) stop() {
	f.mu.Lock()
	f.active = false
	f.mu.Unlock()
}

func (f *ioFaults) uninstall() { curFaults = nil }
