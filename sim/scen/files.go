package scen

import (
	"context"
	"fmt"
	"os"
	"path/filepath"
	"sort"
	"strconv"
	"strings"
	"time"

	"bsim/core"
	"bsim/model"
	"bsim/sched"

	"github.com/blevesearch/bleve/v2"
	"github.com/blevesearch/bleve/v2/index/scorch"
	segment "github.com/blevesearch/scorch_segment_api/v2"
)

// FilesCfg configures the segment-file life-cycle scenario (C12).
type FilesCfg struct {
	Reopen    bool           `json:"reopen,omitempty"`   // the first half of every writer's batches, then Close and reopen, then the rest
	SlowDst   int            `json:"slow_dst,omitempty"` // steps per file of a copy's destination directory
	Index     model.IndexCfg `json:"index"`
	Sched     sched.Config   `json:"sched"`
	NDocs     int            `json:"ndocs"`
	Sample    int            `json:"sample"` // the continuous invariant is evaluated at 1 in N steps
	AnalysisQ int            `json:"analysis_q"`
}

// FilesWL is the workload.
type FilesWL struct {
	Writers     [][]model.Batch `json:"writers"`
	Held        []HeldOp        `json:"held,omitempty"`
	Copies      []int           `json:"copies,omitempty"` // yields before each CopyTo
	ForceMerges int             `json:"force_merges,omitempty"`
}

func genFiles(c *core.Ctx) (FilesCfg, FilesWL) {
	g := c.Gen
	cfg := FilesCfg{Index: model.GenIndexCfg(g), NDocs: 3 + g.Intn(3), Sample: 3 + g.Intn(12), AnalysisQ: 1 + g.Intn(3)}
	cfg.Index.Unsafe = g.Intn(2) == 0
	cfg.Index.SamplingMS = []int{0, 0, 10, 1000}[g.Intn(4)]
	cfg.Sched = genSchedCfg(g, true)
	cfg.SlowDst = []int{0, 5, 40, 150}[g.Intn(4)]
	cfg.Reopen = g.Intn(10) < 3
	wl := FilesWL{}
	nw := 1 + g.Intn(3)
	for w := 0; w < nw; w++ {
		n := 5 + g.Intn(10)
		if c.Quick {
			n = 4 + g.Intn(6)
		}
		wl.Writers = append(wl.Writers, genWriterBatches(g, w, cfg.NDocs, n))
	}
	for h := 0; h < g.Intn(4); h++ {
		wl.Held = append(wl.Held, HeldOp{Wait: g.Intn(120), Queries: 2 + g.Intn(3), Gap: 20 + g.Intn(150)})
	}
	firstCopy := g.Intn(200)
	for i := 0; i < g.Intn(4); i++ {
		if g.Intn(2) == 0 {
			wl.Copies = append(wl.Copies, firstCopy+g.Intn(10)) // overlapping copies
		} else {
			wl.Copies = append(wl.Copies, g.Intn(200))
		}
	}
	if len(wl.Copies) > 0 && g.Intn(3) == 0 {
		cfg.Sched = sched.Config{Policy: sched.PolStarve, StarveRole: "backup"} // a slow copier
	}
	if g.Intn(3) != 0 {
		wl.ForceMerges = 1 + g.Intn(3)
	}
	return cfg, wl
}

// segmentFiles lists the base names of the persisted segment files a reader uses.
func segmentFiles(r any) []string {
	is, ok := r.(*scorch.IndexSnapshot)
	if !ok {
		return nil
	}
	var out []string
	for _, ss := range is.Segments() {
		if ps, ok := ss.Segment().(segment.PersistedSegment); ok {
			out = append(out, filepath.Base(ps.Path()))
		}
	}
	sort.Strings(out)
	return out
}

type heldFiles struct {
	name  string
	files []string
	open  bool
	since int
}

func filesScenario(c *core.Ctx) {
	var cfg FilesCfg
	var wl FilesWL
	if len(c.Spec.Config) == 0 || len(c.Spec.Workload) == 0 {
		cfg, wl = genFiles(c)
		c.Spec.Config, c.Spec.Workload = nil, nil
	}
	cfg = core.LoadOrGen(&c.Spec.Config, func() FilesCfg { return cfg })
	wl = core.LoadOrGen(&c.Spec.Workload, func() FilesWL { return wl })
	env := NewEnv(c, cfg.Sched, cfg.AnalysisQ)
	s := env.S
	defer env.Finish()
	path := filepath.Join(c.Dir, "idx")
	store := filepath.Join(path, "store")
	icfg := cfg.Index
	icfg.AsyncCB = "bsim"
	var idx bleve.Index
	s.Spawn("setup", func() {
		var err error
		idx, err = icfg.Create(path, model.Mapping(false))
		if err != nil {
			c.Res.Harness = "create: " + err.Error()
		}
	})
	if !env.RunClients("setup") || c.Res.Harness != "" {
		return
	}
	if err := s.Quiesce(2 * time.Second); err != nil {
		c.Res.Harness = "settle after create: " + err.Error()
		return
	}
	var holders []*heldFiles
	checks := 0
	lastBuckets := -1
	// (a) the continuous invariant
	invariant := func(step int, when string) {
		checks++
		snaps, err := ReadRootBolt(store)
		if err != nil {
			c.Violate("rootbolt-unreadable", nil, step, "%s: %v", when, err)
			return
		}
		have := map[string]bool{}
		for _, f := range ListZap(store) {
			have[f] = true
		}
		named := map[string]bool{}
		for _, sn := range snaps {
			for _, f := range sn.Files {
				named[f] = true
				if !have[f] {
					c.Violate("needed-file-missing", map[string]string{"holder": "bolt-snapshot"}, step,
						"%s: snapshot epoch %d recorded in root.bolt names %s, which is not in the directory %v", when, sn.Epoch, f, ListZap(store))
				}
			}
		}
		for _, h := range holders {
			if !h.open {
				continue
			}
			for _, f := range h.files {
				if !have[f] {
					holder := "open-reader-and-bolt"
					if !named[f] {
						holder = "open-reader-only"
					}
					c.Violate("needed-file-missing", map[string]string{"holder": holder}, step,
						"%s: %s (reader open since step %d) uses %s, which is no longer in the directory %v (named by a snapshot in root.bolt: %v)", when, h.name, h.since, f, ListZap(store), named[f])
					if holder == "open-reader-only" {
						c.Probe("held_reader_file_unlinked")
					}
				}
			}
		}
		if lastBuckets >= 0 && len(snaps) < lastBuckets {
			c.Probe("purger_removed_bucket")
		}
		lastBuckets = len(snaps)
	}
	s.OnStep(func(si *sched.StepInfo) {
		if c.Tape.Intn(cfg.Sample) == 0 || si.Point == "purge.zap.removed" || si.Point == "purge.bolt.done" {
			invariant(si.Step, fmt.Sprintf("step %d before %s@%s", si.Step, si.Name, si.Point))
		}
	})
	nw := len(wl.Writers)
	firstHalf := func(w int) int {
		if cfg.Reopen {
			return len(wl.Writers[w]) / 2
		}
		return 0
	}
	if cfg.Reopen {
		// phase one: the first half of the batches, no readers or copies; then Close and reopen: the snapshots
		// inherited from the first session must be purged like any others
		for w := range wl.Writers {
			w := w
			s.Spawn(fmt.Sprintf("w%d", w), func() {
				for k := 0; k < firstHalf(w); k++ {
					mb := wl.Writers[w][k]
					mb.Ints = append(append([]model.IntOp(nil), mb.Ints...), model.IntOp{Key: model.MarkerKey(w), Val: strconv.Itoa(k + 1)})
					bb, err := BuildBatch(idx, mb, false)
					if err == nil {
						err = idx.Batch(bb)
					}
					if err != nil {
						c.Violate("batch-error", nil, s.Steps, "writer %d batch %d: %v", w, k+1, err)
						return
					}
				}
			})
		}
		if !env.RunClients("first session") {
			return
		}
		s.Spawn("reopen", func() {
			if err := idx.Close(); err != nil {
				c.Violate("close-error", nil, s.Steps, "Close: %v", err)
				return
			}
			var err error
			if idx, err = icfg.Open(path); err != nil {
				c.Violate("reopen-error", nil, s.Steps, "reopen: %v", err)
				idx = nil
			}
			c.Probe("reopen")
		})
		if !env.RunClients("reopen") || idx == nil {
			return
		}
	}
	for w := range wl.Writers {
		w := w
		s.Spawn(fmt.Sprintf("w%d", w), func() {
			for k, mb := range wl.Writers[w] {
				if k < firstHalf(w) {
					continue
				}
				mb.Ints = append(append([]model.IntOp(nil), mb.Ints...), model.IntOp{Key: model.MarkerKey(w), Val: strconv.Itoa(k + 1)})
				bb, err := BuildBatch(idx, mb, false)
				if err != nil {
					c.Res.Harness = "build batch: " + err.Error()
					return
				}
				if err := idx.Batch(bb); err != nil {
					c.Violate("batch-error", nil, s.Steps, "writer %d batch %d: %v", w, k+1, err)
					return
				}
			}
		})
	}
	for hi, h := range wl.Held {
		hi, h := hi, h
		name := fmt.Sprintf("held%d", hi)
		s.Spawn(name, func() {
			for i := 0; i < h.Wait; i++ {
				s.Yield("held-wait")
			}
			adv, err := idx.Advanced()
			if err != nil {
				return
			}
			r, err := adv.Reader()
			if err != nil {
				c.Violate("read-error", nil, s.Steps, "%s Reader(): %v", name, err)
				return
			}
			hf := &heldFiles{name: name, files: segmentFiles(r), open: true, since: s.Steps}
			holders = append(holders, hf)
			c.Probe("held_reader_opened")
			for q := 0; q < h.Queries; q++ {
				for i := 0; i < h.Gap; i++ {
					s.Yield("held-gap")
				}
				if _, err := r.DocCount(); err != nil {
					c.Violate("read-error", nil, s.Steps, "%s DocCount: %v", name, err)
				}
				for d := 0; d < cfg.NDocs; d++ {
					if _, err := r.Document(model.WriterID(0, d)); err != nil {
						c.Violate("read-error", nil, s.Steps, "%s Document: %v", name, err)
					}
				}
			}
			hf.open = false
			if err := r.Close(); err != nil {
				c.Violate("read-error", nil, s.Steps, "%s reader Close: %v", name, err)
			}
		})
	}
	for ci, w := range wl.Copies {
		ci, w := ci, w
		name := fmt.Sprintf("backup%d", ci)
		s.Spawn(name, func() {
			for i := 0; i < w; i++ {
				s.Yield("backup-wait")
			}
			dst := filepath.Join(c.Dir, name)
			if err := idx.(bleve.IndexCopyable).CopyTo(&slowDirectory{Directory: bleve.FileSystemDirectory(dst), s: s, steps: cfg.SlowDst}); err != nil {
				c.Violate("needed-file-missing", map[string]string{"holder": "copy-in-progress"}, s.Steps, "%s: CopyTo failed: %v", name, err)
			}
			c.Probe("copy_done")
		})
	}
	if wl.ForceMerges > 0 {
		s.Spawn("forcemerge", func() {
			adv, _ := idx.Advanced()
			sc, ok := adv.(*scorch.Scorch)
			if !ok {
				return
			}
			for i := 0; i < wl.ForceMerges; i++ {
				for j := 0; j < 15; j++ {
					s.Yield("forcemerge-wait")
				}
				_ = sc.ForceMerge(context.Background(), nil)
			}
		})
	}
	if !env.RunClients("workload") {
		return
	}
	c.Res.Completed = true
	// (b) settle: writing has stopped, readers are closed; let background work run to quiescence until the
	// directory stops changing
	prev := ""
	stable := false
	for round := 0; round < 12; round++ {
		if err := s.Quiesce(45 * time.Second); err != nil {
			if _, ok := err.(*sched.ErrSteps); ok {
				c.Res.Harness = "settle: " + err.Error()
				return
			}
		}
		cur := strings.Join(ListZap(store), ",")
		snaps, _ := ReadRootBolt(store)
		cur += fmt.Sprint("|", len(snaps))
		if cur == prev {
			stable = true
			break
		}
		prev = cur
	}
	s.ClearHooks()
	if !stable {
		c.Violate("never-settles", nil, s.Steps, "the directory kept changing through 12 quiescent rounds")
	}
	invariant(s.Steps, "at quiescence")
	snaps, _ := ReadRootBolt(store)
	named := map[string]bool{}
	for _, sn := range snaps {
		for _, f := range sn.Files {
			named[f] = true
		}
	}
	keep := cfg.Index.KeepSnapshots
	if keep < 1 {
		keep = 1
	}
	var orphans []string
	for _, f := range ListZap(store) {
		if !named[f] {
			orphans = append(orphans, f)
		}
	}
	sig := map[string]string{}
	if len(snaps) > keep {
		// snapshots already queued for the purger's next pass are removed at the next persister wake-up; one that
		// is neither retained nor queued stays for ever
		pending := map[uint64]bool{}
		if adv, _ := idx.Advanced(); adv != nil {
			if sc, ok := adv.(*scorch.Scorch); ok {
				for _, e := range sc.SimEligibleForRemoval() {
					pending[e] = true
				}
			}
		}
		notQueued := 0
		for _, sn := range snaps {
			if !pending[sn.Epoch] {
				notQueued++
			}
		}
		sig["extras"] = "queued-for-next-purge"
		if notQueued > keep {
			sig["extras"] = "not-queued"
		}
		c.Violate("too-many-snapshots-retained", sig, s.Steps, "at quiescence root.bolt holds %d snapshots %v but numSnapshotsToKeep is %d (queued for the purger's next pass: %v)", len(snaps), epochs(snaps), keep, pending)
	}
	if len(orphans) > 0 {
		// Files that became removable after the purger's last pass (a reader or a copy released them late) wait for
		// the next persister round: that is the known lingering (section 10.8). A file that is still there after
		// one more round is leaked for good. One more batch wakes the persister; then settle again and look.
		s.Spawn("nudge", func() {
			b := idx.NewBatch()
			b.SetInternal([]byte("nudge"), []byte("1"))
			_ = idx.Batch(b)
		})
		if !env.RunClients("nudge") {
			return
		}
		for round := 0; round < 4; round++ {
			_ = s.Quiesce(30 * time.Second)
		}
		snaps2, _ := ReadRootBolt(store)
		named2 := map[string]bool{}
		for _, sn := range snaps2 {
			for _, f := range sn.Files {
				named2[f] = true
			}
		}
		var still []string
		for _, f := range ListZap(store) {
			if !named2[f] {
				still = append(still, f)
			}
		}
		if len(still) > 0 {
			c.Violate("unneeded-files-remain", map[string]string{"after": "one-more-persister-round"}, s.Steps, "at quiescence the directory held %v, which no retained snapshot names; after one more batch and settling again %v are still there (snapshots now: %v)", orphans, still, epochs(snaps2))
		} else {
			c.Violate("unneeded-files-linger", map[string]string{"until": "next-persister-round"}, s.Steps, "at quiescence the directory holds %v, which no retained snapshot names; they disappear only after the next batch wakes the persister (snapshots: %v)", orphans, epochs(snaps))
		}
	}
	ents, _ := os.ReadDir(store)
	for _, e := range ents {
		if n := e.Name(); n != "root.bolt" && !strings.HasSuffix(n, ".zap") {
			c.Violate("foreign-file", nil, s.Steps, "at quiescence the directory holds %s", n)
		}
	}
	// (c) after Close nothing of the index remains open
	s.Spawn("closer", func() {
		if err := idx.Close(); err != nil {
			c.Violate("close-error", nil, s.Steps, "Close: %v", err)
		}
	})
	if !env.RunClients("close") {
		return
	}
	if leaks := openFilesUnder(path); len(leaks) > 0 {
		c.Violate("file-open-after-close", nil, s.Steps, "after Close: %v", leaks)
	}
	for _, p := range s.Panics() {
		c.ViolateProp("C11", "panic", nil, s.Steps, "%s", p)
	}
	c.Res.Checks = checks
	c.Res.NonTrivial = checks > 3 && s.Points["purge.zap.removed"] > 0
	c.Res.Summary = fmt.Sprintf("writers=%d held=%d copies=%d checks=%d buckets=%d files=%d keep=%d steps=%d", nw, len(wl.Held), len(wl.Copies), checks, len(snaps), len(ListZap(store)), keep, s.Steps)
}

func epochs(s []BoltSnapshot) []uint64 {
	var out []uint64
	for _, x := range s {
		out = append(out, x.Epoch)
	}
	return out
}

func init() {
	core.Scenarios["files"] = filesScenario
	core.PropertyScenario["C12"] = "files"
}
