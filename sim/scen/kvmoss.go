package scen

import (
	"fmt"
	"sync"
	"sync/atomic"
	"testing/synctest"

	bmoss "github.com/blevesearch/bleve/v2/index/upsidedown/store/moss"
	"github.com/couchbase/moss"
)

// mossGate puts moss's background merger - a goroutine of the dependency that the scheduler does not own - under the
// workload's control through the seam moss offers (CollectionOptions.OnEvent, reached through the adapter's
// "mossCollectionOptionsName" option): the merger parks at the end of every round until the workload lets it go, so
// that whether a reader meets one merged segment or a stack of unmerged batches (tombstones above old values) is
// decided by the replay file and not by the race between the caller and the merger.
type mossGate struct {
	mu       sync.Mutex
	held     bool
	wake     chan struct{}
	name     string
	unmerged int // batches since the merger last ran until idle
	Rounds   atomic.Int64
}

var mossGateSeq atomic.Int64

func newMossGate() *mossGate {
	g := &mossGate{held: true, wake: make(chan struct{}), name: fmt.Sprintf("bsim-gate-%d", mossGateSeq.Add(1))}
	opts := moss.DefaultCollectionOptions // copy
	opts.OnEvent = g.onEvent
	bmoss.RegistryCollectionOptions[g.name] = opts
	return g
}

func (g *mossGate) onEvent(ev moss.Event) {
	if ev.Kind != moss.EventKindMergerProgress {
		return
	}
	g.Rounds.Add(1)
	for {
		g.mu.Lock()
		held, ch := g.held, g.wake
		g.mu.Unlock()
		if !held {
			return
		}
		<-ch
	}
}

func (g *mossGate) set(held bool) {
	g.mu.Lock()
	g.held = held
	close(g.wake)
	g.wake = make(chan struct{})
	g.mu.Unlock()
}

// settle is called after every batch: with run the merger works until it has nothing left to do, otherwise it only
// finishes the round it is in; either way it is parked again when settle returns.
func (g *mossGate) settle(run bool) (ran bool) {
	if g == nil {
		return false
	}
	if g.due(run) {
		g.set(false)
		synctest.Wait()
		g.set(true)
		return true
	}
	synctest.Wait()
	return false
}

// due counts a batch and says whether the merger has to run now: when the batch asks for it, and before moss would
// make ExecuteBatch wait for the merger (MaxPreMergerBatches, 10 by default).
func (g *mossGate) due(run bool) bool {
	g.unmerged++
	if run || g.unmerged >= 7 {
		g.unmerged = 0
		return true
	}
	return false
}

// done releases the merger for good (Close of the collection waits for it).
func (g *mossGate) done() {
	if g == nil {
		return
	}
	g.set(false)
	delete(bmoss.RegistryCollectionOptions, g.name)
}
