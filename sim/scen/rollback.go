package scen

import (
	"fmt"
	"path/filepath"
	"strconv"
	"strings"
	"time"

	"bsim/core"
	"bsim/model"
	"bsim/sched"

	"github.com/blevesearch/bleve/v2"
	"github.com/blevesearch/bleve/v2/index/scorch"
)

// RollbackCfg configures the rollback scenario (C13).
type RollbackCfg struct {
	Index     model.IndexCfg `json:"index"`
	Sched     sched.Config   `json:"sched"`
	NDocs     int            `json:"ndocs"`
	AnalysisQ int            `json:"analysis_q"`
	ReopenAt  int            `json:"reopen_at,omitempty"` // close/reopen after this batch (0 = never)
}

// RollbackWL is the workload: one writer, every batch tagged with its sequence number.
type RollbackWL struct {
	Batches  []model.Batch   `json:"batches"`
	SleepMS  []int           `json:"sleep_ms"` // simulated pause after each batch
	Searches int             `json:"searches,omitempty"`
	Others   [][]model.Batch `json:"others,omitempty"` // further concurrent writers (own id ranges, own markers): with
	// two safe-batch writers the persister sees several unpersisted segments and merges them in memory
}

func genRollback(c *core.Ctx) (RollbackCfg, RollbackWL) {
	g := c.Gen
	cfg := RollbackCfg{Index: model.GenIndexCfg(g), NDocs: 3 + g.Intn(4), AnalysisQ: 1 + g.Intn(2)}
	// mostly safe mode (acknowledged = persisted, so the newest rollback point is predictable); with unsafe batches a
	// writer runs ahead of the persister, batches land while an in-memory merge runs, and the newest point only has to
	// contain what the persisted callbacks acknowledged
	cfg.Index.Unsafe = g.Intn(10) < 4
	cfg.Index.KeepSnapshots = 1 + g.Intn(4)
	cfg.Index.SamplingMS = []int{0, 0, 10, 1000, 60000}[g.Intn(5)]
	cfg.Index.RetentionFactor = []float64{0, 0, 0.5, 1}[g.Intn(4)]
	cfg.Sched = genSchedCfg(g, true)
	cfg.Sched.TimeEvery = 0
	n := 8 + g.Intn(23)
	if c.Quick && n > 16 {
		n = 16
	}
	wl := RollbackWL{Batches: genWriterBatches(g, 0, cfg.NDocs, n), Searches: g.Intn(3)}
	iv := cfg.Index.SamplingMS
	for i := 0; i < n; i++ {
		sl := 0
		switch g.Intn(4) {
		case 0:
			sl = g.Intn(5)
		case 1:
			sl = iv / 2
		case 2:
			sl = iv + g.Intn(iv+1)
		case 3:
			sl = 3 * iv
		}
		wl.SleepMS = append(wl.SleepMS, sl)
	}
	if g.Intn(4) == 0 {
		// the persister's multi-group in-memory merge under fire: unsafe batches over very few documents keep landing
		// while several merge workers run, so that whole groups are obsoleted before their merge is introduced; every
		// epoch persisted on the way stays on the list
		cfg.Index.Unsafe, cfg.Index.Workers, cfg.Index.MaxMemMerge, cfg.Index.MinSegsMem = true, 2+g.Intn(2), 1, 2
		cfg.Index.KeepSnapshots, cfg.Index.SamplingMS, cfg.NDocs = 4, 0, 2+g.Intn(2)
		wl.Batches = genWriterBatches(g, 0, cfg.NDocs, n)
		for i := range wl.SleepMS {
			if g.Intn(4) != 0 {
				wl.SleepMS[i] = 0
			}
		}
		for w := 1; w <= 1+g.Intn(2); w++ {
			wl.Others = append(wl.Others, genWriterBatches(g, w, cfg.NDocs, 6+g.Intn(n)))
		}
	} else if g.Intn(3) == 0 {
		cfg.ReopenAt = 1 + g.Intn(n)
	} else if g.Intn(2) == 0 {
		for w := 1; w <= 1+g.Intn(2); w++ {
			wl.Others = append(wl.Others, genWriterBatches(g, w, cfg.NDocs, 4+g.Intn(n)))
		}
	}
	return cfg, wl
}

func rollbackScenario(c *core.Ctx) {
	var cfg RollbackCfg
	var wl RollbackWL
	if len(c.Spec.Config) == 0 || len(c.Spec.Workload) == 0 {
		cfg, wl = genRollback(c)
		c.Spec.Config, c.Spec.Workload = nil, nil
	}
	cfg = core.LoadOrGen(&c.Spec.Config, func() RollbackCfg { return cfg })
	wl = core.LoadOrGen(&c.Spec.Workload, func() RollbackWL { return wl })
	env := NewEnv(c, cfg.Sched, cfg.AnalysisQ)
	s := env.S
	defer env.Finish()
	path := filepath.Join(c.Dir, "idx")
	store := filepath.Join(path, "store")
	icfg := cfg.Index
	icfg.AsyncCB = "bsim"
	if cfg.ReopenAt > 0 {
		wl.Others = nil // the writer that closes and reopens the index is alone
		cfg.Index.Unsafe = false
		icfg.Unsafe = false
	}
	all := append([][]model.Batch{wl.Batches}, wl.Others...)
	var wps []*model.WriterPrefixes
	var ids, keys []string
	for w, bs := range all {
		wps = append(wps, model.NewWriterPrefixes(w, cfg.NDocs, bs))
		for d := 0; d < cfg.NDocs; d++ {
			ids = append(ids, model.WriterID(w, d))
		}
		keys = append(keys, model.MarkerKey(w))
	}
	wp := wps[0]
	_ = wp
	ackedOf := make([]int, len(all))
	acked := 0
	checks := 0
	keep := cfg.Index.KeepSnapshots
	if keep < 1 {
		keep = 1
	}
	// during the run: the newest snapshot recorded in root.bolt never disappears, and (no sampling interval) a
	// purge never leaves fewer than min(keep, what was there) snapshots
	prevEpochs := []uint64{}
	s.OnStep(func(si *sched.StepInfo) {
		if si.Point != "purge.bolt.done" && si.Point != "bolt.committed" && si.Point != "purge.bolt.pre" {
			return
		}
		snaps, err := ReadRootBolt(store)
		if err != nil {
			return
		}
		cur := epochs(snaps)
		checks++
		if len(prevEpochs) > 0 {
			newest := prevEpochs[len(prevEpochs)-1]
			found := false
			for _, e := range cur {
				if e >= newest {
					found = true
				}
			}
			if !found {
				c.Violate("newest-snapshot-removed", nil, si.Step, "root.bolt had snapshots %v, now %v: the newest one is gone", prevEpochs, cur)
			}
			if len(cur) < len(prevEpochs) {
				c.Probe("purge_removed_snapshots")
				if cfg.Index.SamplingMS == 0 && len(cur) < min(keep, len(prevEpochs)) {
					c.Violate("purged-below-keep", nil, si.Step, "a purge left %d snapshots %v of %v although numSnapshotsToKeep is %d", len(cur), cur, prevEpochs, keep)
				}
			}
		}
		prevEpochs = cur
	})
	var idx bleve.Index
	s.Spawn("setup", func() {
		var err error
		idx, err = icfg.Create(path, model.Mapping(false))
		if err != nil {
			c.Res.Harness = "create: " + err.Error()
			idx = nil
		}
	})
	if !env.RunClients("setup") || idx == nil {
		return
	}
	s.Spawn("writer", func() {
		for k, mb := range wl.Batches {
			seq := k + 1
			mb.Ints = append(append([]model.IntOp(nil), mb.Ints...), model.IntOp{Key: model.MarkerKey(0), Val: strconv.Itoa(seq)})
			bb, err := BuildBatch(idx, mb, false)
			if err != nil {
				c.Res.Harness = "build batch: " + err.Error()
				return
			}
			if cfg.Index.Unsafe {
				bb.SetPersistedCallback(func(err error) {
					if err == nil && seq > ackedOf[0] {
						ackedOf[0] = seq
					}
				})
			}
			if err := idx.Batch(bb); err != nil {
				c.Violate("batch-error", nil, s.Steps, "batch %d: %v", seq, err)
				return
			}
			acked = seq
			if !cfg.Index.Unsafe {
				ackedOf[0] = seq
			}
			if k < len(wl.SleepMS) && wl.SleepMS[k] > 0 {
				time.Sleep(time.Duration(wl.SleepMS[k]) * time.Millisecond)
				s.Yield("writer-woke")
				if cfg.Index.SamplingMS > 0 && wl.SleepMS[k] > cfg.Index.SamplingMS {
					c.Probe("time_jump_over_sampling_interval")
				}
			}
			if cfg.ReopenAt == seq {
				if err := idx.Close(); err != nil {
					c.Violate("close-error", nil, s.Steps, "%v", err)
					idx = nil
					return
				}
				var err error
				if idx, err = icfg.Open(path); err != nil {
					c.Violate("reopen-error", nil, s.Steps, "%v", err)
					idx = nil
					return
				}
				c.Probe("reopen")
			}
		}
	})
	for w := 1; w < len(all); w++ {
		w := w
		s.Spawn(fmt.Sprintf("writer%d", w), func() {
			for k, mb := range all[w] {
				mb.Ints = append(append([]model.IntOp(nil), mb.Ints...), model.IntOp{Key: model.MarkerKey(w), Val: strconv.Itoa(k + 1)})
				bb, err := BuildBatch(idx, mb, false)
				if err != nil {
					c.Res.Harness = "build batch: " + err.Error()
					return
				}
				if cfg.Index.Unsafe {
					kk := k + 1
					bb.SetPersistedCallback(func(err error) {
						if err == nil && kk > ackedOf[w] {
							ackedOf[w] = kk
						}
					})
				}
				if err := idx.Batch(bb); err != nil {
					c.Violate("batch-error", nil, s.Steps, "writer %d batch %d: %v", w, k+1, err)
					return
				}
				if !cfg.Index.Unsafe {
					ackedOf[w] = k + 1
				}
			}
		})
	}
	if wl.Searches > 0 {
		s.Spawn("searcher", func() {
			for i := 0; i < wl.Searches*4; i++ {
				s.Yield("searcher-pause")
				if idx != nil && i%4 == 3 {
					_, _ = idx.Search(bleve.NewSearchRequest(bleve.NewMatchAllQuery()))
				}
			}
		})
	}
	if !env.RunClients("workload") || idx == nil {
		return
	}
	_ = s.Quiesce(3 * time.Second)
	s.ClearHooks()
	// "honours the configured number of snapshots to keep": once the index is idle root.bolt holds at most that
	// many. Extras that are queued for the purger's next pass are the known lingering (the purger only runs when the
	// persister wakes up, DESIGN.md section 10.8); extras that nobody remembers stay for ever.
	if snaps, err := ReadRootBolt(store); err == nil && len(snaps) > keep {
		pending := map[uint64]bool{}
		if adv, _ := idx.Advanced(); adv != nil {
			if sc, ok := adv.(*scorch.Scorch); ok {
				for _, e := range sc.SimEligibleForRemoval() {
					pending[e] = true
				}
			}
		}
		notQueued := 0
		for _, sn := range snaps {
			if !pending[sn.Epoch] {
				notQueued++
			}
		}
		sig := map[string]string{"extras": "queued-for-next-purge"}
		if notQueued > keep {
			sig["extras"] = "not-queued"
		}
		c.Violate("too-many-rollback-points", sig, s.Steps, "the idle index offers %d rollback points %v but numSnapshotsToKeep is %d (queued for the purger's next pass: %v)", len(snaps), epochs(snaps), keep, pending)
	}
	s.Spawn("closer", func() {
		if err := idx.Close(); err != nil {
			c.Violate("close-error", nil, s.Steps, "Close: %v", err)
		}
	})
	if !env.RunClients("close") {
		return
	}
	c.Res.Completed = true
	// the list of rollback points
	pts, err := scorch.RollbackPoints(store)
	if err != nil {
		c.Violate("rollback-points-error", nil, s.Steps, "RollbackPoints: %v", err)
		return
	}
	// every point names, per writer, the number of batches it contains
	parse := func(v string, n int) (int, bool) {
		if v == "" { // no marker: the state before the writer's first batch
			return 0, true
		}
		k, err := strconv.Atoi(v)
		return k, err == nil && k >= 0 && k <= n
	}
	var seqs []int      // writer 0, for the summary
	var pointKs [][]int // per point, per writer
	for _, p := range pts {
		ks := make([]int, len(all))
		for w := range all {
			v := string(p.GetInternal([]byte(model.MarkerKey(w))))
			k, ok := parse(v, len(all[w]))
			if !ok {
				c.Violate("rollback-point-unknown-state", nil, s.Steps, "rollback point carries marker %q for writer %d, which is not a batch number", v, w)
				return
			}
			ks[w] = k
		}
		pointKs = append(pointKs, ks)
		seqs = append(seqs, ks[0])
	}
	if len(seqs) == 0 {
		c.Violate("no-rollback-point", nil, s.Steps, "no rollback point is offered after %d acknowledged batches", acked)
		return
	}
	for w := range all {
		if (!cfg.Index.Unsafe && pointKs[0][w] != ackedOf[w]) || (cfg.Index.Unsafe && pointKs[0][w] < ackedOf[w]) {
			c.Violate("newest-state-not-offered", nil, s.Steps, "the first rollback point holds %d batches of writer %d but %d were acknowledged (persisted); points %v", pointKs[0][w], w, ackedOf[w], pointKs)
		}
		for i := 1; i < len(pointKs); i++ {
			if pointKs[i][w] > pointKs[i-1][w] {
				c.Violate("rollback-points-out-of-order", nil, s.Steps, "rollback points are not ordered newest first: %v", pointKs)
			}
		}
	}
	if len(pts) > keep {
		c.Probe("more_points_than_keep")
	}
	// roll back to every offered point, on a copy
	for pi := range pts {
		cp := filepath.Join(c.Dir, fmt.Sprintf("rb%d", pi))
		if err := CopyDir(path, cp); err != nil {
			c.Res.Harness = "copy: " + err.Error()
			return
		}
		pp, err := scorch.RollbackPoints(filepath.Join(cp, "store"))
		if err != nil || len(pp) != len(pts) {
			c.Violate("rollback-points-error", nil, s.Steps, "RollbackPoints on a copy: %v (%d points, expected %d)", err, len(pp), len(pts))
			return
		}
		if err := scorch.Rollback(filepath.Join(cp, "store"), pp[pi]); err != nil {
			c.Violate("rollback-error", nil, s.Steps, "Rollback to point %d (batch %d): %v", pi, seqs[pi], err)
			continue
		}
		checks++
		ix, err := model.RecoveryCfg().Open(cp)
		if err != nil {
			c.Violate("open-after-rollback-failed", nil, s.Steps, "after Rollback to batch %d: %v", seqs[pi], err)
			continue
		}
		m := model.NewMapModel()
		for w := range all {
			st := wps[w].States[pointKs[pi][w]]
			for id, v := range st.Docs {
				m.Docs[id] = v
			}
			for k2, v := range st.Ints {
				m.Ints[k2] = v
			}
		}
		st, err := ReadState(ix, ids, keys)
		if err != nil {
			c.Violate("open-after-rollback-failed", nil, s.Steps, "after Rollback to batch %d: %v", seqs[pi], err)
			_ = ix.Close()
			continue
		}
		if bad := CheckState(st, m, ids, keys, false); len(bad) > 0 {
			c.Violate("state-after-rollback-wrong", nil, s.Steps, "after Rollback to point %d (batches per writer %v, all points %v): %s", pi, pointKs[pi], pointKs, strings.Join(bad, "; "))
			_ = ix.Close()
			continue
		}
		// the index accepts new writes, and they survive a reopen
		ok := true
		for i := 1; i <= 2 && ok; i++ {
			mb := model.Batch{Docs: []model.DocOp{{ID: ids[i%len(ids)], Ver: 5000 + i}}, Ints: []model.IntOp{{Key: model.MarkerKey(0), Val: strconv.Itoa(seqs[pi])}}}
			bb, _ := BuildBatch(ix, mb, false)
			if err := ix.Batch(bb); err != nil {
				c.Violate("write-after-rollback-failed", nil, s.Steps, "after Rollback to batch %d: %v", seqs[pi], err)
				ok = false
			}
			m.Apply(mb)
		}
		if ok {
			if err := ix.Close(); err != nil {
				c.Violate("write-after-rollback-failed", nil, s.Steps, "Close: %v", err)
				continue
			}
			ix2, err := model.RecoveryCfg().Open(cp)
			if err != nil {
				c.Violate("write-after-rollback-failed", nil, s.Steps, "reopen: %v", err)
				continue
			}
			if st2, err := ReadState(ix2, ids, keys); err != nil {
				c.Violate("write-after-rollback-failed", nil, s.Steps, "read: %v", err)
			} else if bad := CheckState(st2, m, ids, keys, false); len(bad) > 0 {
				c.Violate("write-after-rollback-wrong", nil, s.Steps, "after Rollback to batch %d and two new batches: %s", seqs[pi], strings.Join(bad, "; "))
			}
			_ = ix2.Close()
		} else {
			_ = ix.Close()
		}
	}
	for _, p := range s.Panics() {
		c.ViolateProp("C11", "panic", nil, s.Steps, "%s", p)
	}
	c.Res.Checks = checks
	c.Res.NonTrivial = len(pts) > 0 && acked > 3
	c.Res.Summary = fmt.Sprintf("batches=%d keep=%d sampling=%dms retention=%v points=%v steps=%d simtime=%v", acked, keep, cfg.Index.SamplingMS, cfg.Index.RetentionFactor, seqs, s.Steps, s.SimTime())
}

func init() {
	core.Scenarios["rollback"] = rollbackScenario
	core.PropertyScenario["C13"] = "rollback"
}
