package scen

import (
	"context"
	"errors"
	"fmt"
	"os"
	"path/filepath"
	"runtime"
	"strings"
	"time"

	"bsim/core"
	"bsim/model"
	"bsim/qeval"
	"bsim/sched"

	"github.com/blevesearch/bleve/v2"
	"github.com/blevesearch/bleve/v2/index/scorch"
)

// ChaosCfg configures the chaos scenario (C11).
type ChaosCfg struct {
	Index     model.IndexCfg `json:"index"`
	Sched     sched.Config   `json:"sched"`
	NIDs      int            `json:"nids"`
	Big       int            `json:"big,omitempty"` // documents indexed up front so that searches cross the collector's 1024-match poll
	AnalysisQ int            `json:"analysis_q"`
	CloseAt   int            `json:"close_at"`  // yields the closer waits before calling Close
	CloseTwo  bool           `json:"close_two"` // a second client calls Close as well
	CancelAt  []int          `json:"cancel_at"` // yields before each cancellation
}

// ChaosOp is one client operation.
type ChaosOp struct {
	K    string   `json:"k"` // index delete batch search searchdl doc count dict stats merge copy pause
	ID   int      `json:"id,omitempty"`
	N    int      `json:"n,omitempty"`
	DlMS int      `json:"dl_ms,omitempty"`
	Q    *qeval.Q `json:"q,omitempty"` // searchq: a query tree from the C02 family (compound searchers, filters, multi-term leaves)
}

// ChaosWL is the workload.
type ChaosWL struct {
	Clients [][]ChaosOp `json:"clients"`
}

func genChaos(c *core.Ctx) (ChaosCfg, ChaosWL) {
	g := c.Gen
	cfg := ChaosCfg{NIDs: 8, AnalysisQ: 1 + g.Intn(3)}
	switch g.Intn(10) {
	case 0, 1:
		cfg.Index = udcCfg("gtreap")
	case 2:
		cfg.Index = udcCfg("boltdb")
	case 3:
		cfg.Index = model.GenIndexCfg(g)
		cfg.Index.InMem = true
	default:
		cfg.Index = model.GenIndexCfg(g)
		cfg.Index.Unsafe = g.Intn(2) == 0
	}
	cfg.Sched = genSchedCfg(g, cfg.Index.Engine == "scorch")
	if g.Intn(5) == 0 {
		cfg.Big = 1100
	}
	nc := 3 + g.Intn(6)
	wl := ChaosWL{}
	total := 0
	for i := 0; i < nc; i++ {
		n := 5 + g.Intn(26)
		if c.Quick && n > 16 {
			n = 16
		}
		var ops []ChaosOp
		for j := 0; j < n; j++ {
			k := []string{"index", "index", "delete", "batch", "batch", "search", "search", "searchdl", "doc", "count", "dict", "stats", "merge", "copy", "pause", "searchall", "searchq", "searchq"}[g.Intn(18)]
			op := ChaosOp{K: k, ID: g.Intn(cfg.NIDs), N: 1 + g.Intn(5), DlMS: []int{0, 1, 10, 1000}[g.Intn(4)]}
			if k == "searchq" {
				var ids []string
				for d := 0; d < cfg.NIDs; d++ {
					ids = append(ids, fmt.Sprintf("d%02d", d))
				}
				q := qeval.Gen(g, 2, ids, false)
				op.Q = &q
			}
			ops = append(ops, op)
		}
		total += n
		wl.Clients = append(wl.Clients, ops)
	}
	cfg.CloseAt = g.Intn(total*12 + 20)
	cfg.CloseTwo = g.Intn(3) == 0
	for i := 0; i < g.Intn(4); i++ {
		cfg.CancelAt = append(cfg.CancelAt, g.Intn(total*6+10))
	}
	return cfg, wl
}

func isClosedErr(err error) bool {
	return err != nil && (errors.Is(err, bleve.ErrorIndexClosed) || strings.Contains(err.Error(), "index is closed"))
}

func chaosScenario(c *core.Ctx) {
	var cfg ChaosCfg
	var wl ChaosWL
	if len(c.Spec.Config) == 0 || len(c.Spec.Workload) == 0 {
		cfg, wl = genChaos(c)
		c.Spec.Config, c.Spec.Workload = nil, nil
	}
	cfg = core.LoadOrGen(&c.Spec.Config, func() ChaosCfg { return cfg })
	wl = core.LoadOrGen(&c.Spec.Workload, func() ChaosWL { return wl })
	env := NewEnv(c, cfg.Sched, cfg.AnalysisQ)
	s := env.S
	defer env.Finish()
	path := filepath.Join(c.Dir, "idx")
	icfg := cfg.Index
	icfg.AsyncCB = "bsim"
	var idx bleve.Index
	s.Spawn("setup", func() {
		var err error
		idx, err = icfg.Create(path, model.Mapping(false))
		if err != nil {
			c.Res.Harness = "create: " + err.Error()
			return
		}
		if cfg.Big > 0 {
			b := idx.NewBatch()
			for i := 0; i < cfg.Big; i++ {
				id := fmt.Sprintf("big%04d", i)
				b.Index(id, map[string]interface{}{"kw": "red", "ver": id})
			}
			if err := idx.Batch(b); err != nil {
				c.Res.Harness = "big batch: " + err.Error()
			}
		}
	})
	if !env.RunClients("setup") || c.Res.Harness != "" {
		return
	}
	engSig := map[string]string{"engine": cfg.Index.Engine}
	closeInvoked, closeReturned := -1, -1 // scheduler steps
	inflightRet := 0                      // latest return step of a call that was in flight when Close was invoked
	closeOwn := 0                         // scheduling steps of its own that a Close call needed
	type call struct{ inv int }
	inflight := map[string]*call{}
	var cancels []context.CancelFunc // contexts of searches currently in progress
	// a cancellation: which client's search was cancelled, and how many of its own scheduling steps the client
	// then needed to return (global steps would measure the fairness of the schedule, not promptness)
	type cancelled struct {
		client string
		ownAt  int
		ownRet int
		done   bool
	}
	var cancelLog []*cancelled
	searching := map[int]string{} // index into cancels -> client
	ver := 0
	calls := 0

	// judge classifies the error of a call w.r.t. Close
	judge := func(client, what string, inv int, err error) {
		calls++
		if err == nil {
			if closeReturned >= 0 && inv > closeReturned {
				c.Violate("call-after-close-succeeded", engSig, s.Steps, "%s: %s invoked at step %d succeeded although Close had returned at step %d", client, what, inv, closeReturned)
			}
			return
		}
		if isClosedErr(err) {
			if closeInvoked < 0 {
				c.Violate("closed-error-before-close", engSig, s.Steps, "%s: %s returned %v but Close has not been called", client, what, err)
			}
			return
		}
		if errors.Is(err, context.Canceled) || errors.Is(err, context.DeadlineExceeded) {
			return
		}
		if strings.Contains(err.Error(), "force merge already in progress") {
			return
		}
		if closeInvoked >= 0 {
			// racing with Close a call may fail, but only with the closed-index error
			c.Violate("wrong-error-around-close", engSig, s.Steps, "%s: %s returned %q (Close invoked at step %d); only the closed-index error is allowed", client, what, err.Error(), closeInvoked)
			return
		}
		c.Violate("call-error", engSig, s.Steps, "%s: %s returned %v", client, what, err)
	}

	for ci, ops := range wl.Clients {
		ci, ops := ci, ops
		name := fmt.Sprintf("c%d", ci)
		s.Spawn(name, func() {
			for _, op := range ops {
				inv := s.Steps
				cl := &call{inv: inv}
				inflight[name] = cl
				var err error
				what := op.K
				id := fmt.Sprintf("d%02d", op.ID%max(1, cfg.NIDs))
				switch op.K {
				case "index":
					ver++
					err = idx.Index(id, model.MakeDoc(id, ver, false).Input())
				case "delete":
					err = idx.Delete(id)
				case "batch":
					b := idx.NewBatch()
					for j := 0; j < op.N; j++ {
						ver++
						bid := fmt.Sprintf("d%02d", (op.ID+j)%max(1, cfg.NIDs))
						if (op.ID+j)%3 == 0 {
							b.Delete(bid)
						} else {
							b.Index(bid, model.MakeDoc(bid, ver, false).Input())
						}
					}
					err = idx.Batch(b)
				case "search", "searchall", "searchdl", "searchq":
					var q = bleve.NewSearchRequest(bleve.NewPrefixQuery("ca"))
					if op.K == "searchq" && op.Q != nil {
						q = bleve.NewSearchRequest(op.Q.Bleve())
						q.Size = 3 // small pages: the searchers are closed before they are exhausted
						c.Probe("search_query_family")
					} else if op.K == "searchall" || cfg.Big > 0 {
						q = bleve.NewSearchRequest(bleve.NewMatchAllQuery())
					}
					ctx, cancel := context.WithCancel(context.Background())
					if op.K == "searchdl" && op.DlMS > 0 {
						ctx, cancel = context.WithTimeout(context.Background(), time.Duration(op.DlMS)*time.Millisecond)
					}
					cancels = append(cancels, cancel)
					mine := len(cancels) - 1
					searching[mine] = name
					_, err = idx.SearchInContext(ctx, q)
					cancels[mine] = nil
					delete(searching, mine)
					cancel()
					for _, cl := range cancelLog {
						if !cl.done && cl.client == name {
							cl.done, cl.ownRet = true, s.OwnSteps(name)
						}
					}
					if err != nil && (errors.Is(err, context.Canceled) || errors.Is(err, context.DeadlineExceeded)) {
						c.Probe("search_cancelled_or_timed_out")
						// the index stays usable
						if _, err2 := idx.Search(bleve.NewSearchRequest(bleve.NewMatchNoneQuery())); err2 != nil && !isClosedErr(err2) {
							c.Violate("unusable-after-cancel", engSig, s.Steps, "%s: search after a cancelled search failed: %v", name, err2)
						}
					}
				case "doc":
					_, err = idx.Document(id)
				case "count":
					_, err = idx.DocCount()
				case "dict":
					var fd interface {
						Next() (*struct{}, error)
					}
					_ = fd
					d, derr := idx.FieldDict("body")
					err = derr
					if derr == nil {
						for k := 0; k < 50; k++ {
							e, nerr := d.Next()
							if nerr != nil || e == nil {
								break
							}
						}
						err = d.Close()
					}
				case "stats":
					_ = idx.StatsMap()
					_ = idx.Stats()
				case "merge":
					if adv, _ := idx.Advanced(); adv != nil {
						if sc, ok := adv.(*scorch.Scorch); ok {
							err = sc.ForceMerge(context.Background(), nil)
						}
					}
				case "copy":
					if cfg.Index.Engine == "scorch" && !cfg.Index.InMem {
						dst := filepath.Join(c.Dir, fmt.Sprintf("copy-%s-%d", name, inv))
						err = idx.(bleve.IndexCopyable).CopyTo(bleve.FileSystemDirectory(dst))
						what = "CopyTo"
					}
				case "pause":
					for j := 0; j < op.N*3; j++ {
						s.Yield("client-pause")
					}
				}
				delete(inflight, name)
				if closeInvoked >= 0 && inv <= closeInvoked && s.Steps > inflightRet && closeReturned < 0 {
					inflightRet = s.Steps
				}
				switch op.K {
				case "stats", "pause":
					// no error-returning API call was made
				case "merge":
					// ForceMerge is reached through Advanced(), below the closed-index check of the index API: only
					// its errors are judged
					if err != nil {
						judge(name, what, inv, err)
					}
				case "copy":
					if what == "CopyTo" {
						judge(name, what, inv, err)
					}
				default:
					judge(name, what, inv, err)
				}
			}
		})
	}
	doClose := func(name string, wait int) {
		s.Spawn(name, func() {
			for i := 0; i < wait; i++ {
				s.Yield("closer-wait")
			}
			if closeInvoked < 0 {
				closeInvoked = s.Steps
				inflightRet = s.Steps
			}
			own0 := s.OwnSteps(name)
			err := idx.Close()
			if closeReturned < 0 {
				closeReturned = s.Steps
			}
			if d := s.OwnSteps(name) - own0; d > closeOwn {
				closeOwn = d
			}
			if err != nil && !isClosedErr(err) {
				c.Violate("close-error", engSig, s.Steps, "%s: Close returned %v", name, err)
			}
			c.Probe("close_called")
		})
	}
	doClose("closer", cfg.CloseAt)
	if cfg.CloseTwo {
		doClose("closer2", cfg.CloseAt+c.Gen.Intn(1)+3)
		c.Probe("second_close")
	}
	if len(cfg.CancelAt) > 0 {
		s.Spawn("canceller", func() {
			for _, w := range cfg.CancelAt {
				for i := 0; i < w; i++ {
					s.Yield("canceller-wait")
				}
				for i, cf := range cancels {
					if cf != nil {
						cf()
						c.Fault("context_cancelled")
						cancelLog = append(cancelLog, &cancelled{client: searching[i], ownAt: s.OwnSteps(searching[i])})
					}
				}
			}
		})
	}
	ok := env.RunClients("chaos")
	for _, p := range s.Panics() {
		c.Violate("panic", engSig, s.Steps, "%s", p)
	}
	if !ok {
		return
	}
	c.Res.Completed = true
	c.Res.Checks = calls
	// Close completes: it returned at all (a Close that never returns ends the run as a deadlock), and it did not
	// need an unbounded number of its own steps (lock-wait spinning)
	if closeOwn > 5000 {
		c.Violate("close-too-slow", engSig, s.Steps, "a Close call needed %d scheduling steps of its own", closeOwn)
	}
	_ = inflightRet
	for _, cl := range cancelLog {
		if cl.done && cl.ownRet-cl.ownAt > 1500 {
			c.Violate("cancel-too-slow", engSig, s.Steps, "%s: a search whose context was cancelled needed %d more scheduling steps of its own to return", cl.client, cl.ownRet-cl.ownAt)
		}
	}
	for _, e := range env.AsyncErrors() {
		if strings.Contains(e, "panic") {
			c.Violate("async-panic", engSig, s.Steps, "background panic: %s", e)
		}
	}
	// after Close: a call fails with the closed-index error
	s.Spawn("after-close", func() {
		if _, err := idx.DocCount(); !isClosedErr(err) {
			c.Violate("call-after-close-succeeded", engSig, s.Steps, "DocCount after Close returned %v", err)
		}
		if err := idx.Index("late", map[string]interface{}{"kw": "red"}); !isClosedErr(err) {
			c.Violate("call-after-close-succeeded", engSig, s.Steps, "Index after Close returned %v", err)
		}
		if _, err := idx.Search(bleve.NewSearchRequest(bleve.NewMatchAllQuery())); !isClosedErr(err) {
			c.Violate("call-after-close-succeeded", engSig, s.Steps, "Search after Close returned %v", err)
		}
	})
	if !env.RunClients("after-close") {
		return
	}
	for _, p := range s.Panics() {
		c.Violate("panic", engSig, s.Steps, "%s", p)
	}
	// all background work has stopped: no instrumented task left, no file of the index open or mapped
	_ = s.Quiesce(2 * time.Second)
	if _, all := s.Live(); all > 0 {
		c.Violate("goroutine-leak", engSig, s.Steps, "%d tasks of the index are still alive after Close: %v", all, s.ParkedPoints())
	}
	if leaks := openFilesUnder(c.Dir); len(leaks) > 0 {
		c.ViolateProp("C12", "file-open-after-close", engSig, s.Steps, "after Close: %v", leaks)
	}
	if g := bleveGoroutines(); g != "" {
		c.Violate("goroutine-leak", engSig, s.Steps, "goroutines with index frames remain after Close:\n%s", g)
		c.TolerateLeak = true // they are still there when the bubble ends; the violation is the report
	}
	c.Res.NonTrivial = calls > 5 && closeInvoked >= 0
	c.Res.Summary = fmt.Sprintf("engine=%s/%s clients=%d calls=%d close@%d..%d twoClosers=%v cancels=%d steps=%d", cfg.Index.Engine, cfg.Index.KV, len(wl.Clients), calls, closeInvoked, closeReturned, cfg.CloseTwo, len(cancelLog), s.Steps)
}

// openFilesUnder lists descriptors and mappings of this process that point below dir.
func openFilesUnder(dir string) []string {
	var out []string
	ents, _ := os.ReadDir("/proc/self/fd")
	for _, e := range ents {
		if t, err := os.Readlink("/proc/self/fd/" + e.Name()); err == nil && strings.HasPrefix(t, dir) {
			out = append(out, "fd "+t)
		}
	}
	if b, err := os.ReadFile("/proc/self/maps"); err == nil {
		for _, l := range strings.Split(string(b), "\n") {
			if strings.Contains(l, dir) {
				f := strings.Fields(l)
				out = append(out, "mmap "+f[len(f)-1])
			}
		}
	}
	return out
}

// bleveGoroutines returns the stacks of goroutines that run index code (scorch / upsidedown / stores).
func bleveGoroutines() string {
	buf := make([]byte, 4<<20)
	buf = buf[:runtime.Stack(buf, true)]
	var out []string
	for _, g := range strings.Split(string(buf), "\n\n") {
		if !strings.Contains(g, "synctest bubble") {
			continue
		}
		if strings.Contains(g, "bleve/v2/index/scorch.") || strings.Contains(g, "bleve/v2/index/upsidedown.") || strings.Contains(g, "bleve/v2/index/upsidedown/store") || strings.Contains(g, "bbolt.") {
			if strings.Contains(g, "bsim/scen.") || strings.Contains(g, "bleveGoroutines") {
				continue
			}
			lines := strings.Split(g, "\n")
			if len(lines) > 12 {
				lines = lines[:12]
			}
			out = append(out, strings.Join(lines, "\n"))
		}
	}
	return strings.Join(out, "\n\n")
}

func init() {
	core.Scenarios["chaos"] = chaosScenario
	core.PropertyScenario["C11"] = "chaos"
}
