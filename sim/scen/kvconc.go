package scen

import (
	"bytes"
	"fmt"
	"os"
	"path/filepath"
	"sort"
	"strings"

	"bsim/core"

	"github.com/blevesearch/bleve/v2/registry"
	store "github.com/blevesearch/upsidedown_store_api"
)

// openKVStore opens the adapter named by cfg below dir.
func openKVStore(cfg KVCfg, dir string) (store.KVStore, store.MergeOperator, *mossGate, error) {
	var mo store.MergeOperator = appendMO{}
	if cfg.MO == "counter" {
		mo = counterMO{}
	}
	kcfg := map[string]interface{}{"path": ""}
	name := cfg.Store
	switch cfg.Store {
	case "boltdb":
		kcfg["path"] = filepath.Join(dir, "kv")
		kcfg["initialMmapSize"] = 64 << 20
	case "goleveldb":
		kcfg["path"] = filepath.Join(dir, "kv")
		kcfg["create_if_missing"] = true
	case "moss-over-gtreap", "moss-over-mossStore":
		// moss in front of a lower-level store: a persister goroutine of moss hands batches over to it (lower.go)
		name = "moss"
		kcfg["mossLowerLevelStoreName"] = strings.TrimPrefix(cfg.Store, "moss-over-")
		kcfg["mossLowerLevelMaxBatchSize"] = float64(cfg.LLBatch)
		if cfg.Store == "moss-over-mossStore" {
			kcfg["path"] = filepath.Join(dir, "kv")
			_ = os.MkdirAll(filepath.Join(dir, "kv"), 0o755)
		}
	case "metrics-gtreap":
		name = "metrics"
		kcfg["kvStoreName_actual"] = "gtreap"
	case "metrics-boltdb":
		name = "metrics"
		kcfg["kvStoreName_actual"] = "boltdb"
		kcfg["path"] = filepath.Join(dir, "kv")
		kcfg["initialMmapSize"] = 64 << 20
	}
	var gate *mossGate
	if name == "moss" && cfg.MossGate {
		gate = newMossGate()
		kcfg["mossCollectionOptionsName"] = gate.name
	}
	ctor := registry.KVStoreConstructorByName(name)
	if ctor == nil {
		gate.done()
		return nil, nil, nil, fmt.Errorf("no KV store %s", name)
	}
	st, err := ctor(mo, kcfg)
	if err != nil {
		gate.done()
		gate = nil
	}
	return st, mo, gate, err
}

func scanAll(r store.KVReader) string {
	it := r.RangeIterator(nil, nil)
	defer it.Close()
	var b bytes.Buffer
	for {
		k, v, ok := it.Current()
		if !ok {
			break
		}
		fmt.Fprintf(&b, "%x=%x,", k, v)
		it.Next()
	}
	return b.String()
}

func (m kvModel) render() string {
	var ks []string
	for k := range m {
		ks = append(ks, k)
	}
	sort.Strings(ks)
	var b bytes.Buffer
	for _, k := range ks {
		fmt.Fprintf(&b, "%x=%x,", k, m[k])
	}
	return b.String()
}

// kvConcScenario runs the writer and the readers as scheduler tasks: a reader can be created while a batch is being
// executed (the adapters are instrumented with yields at their locks and loop heads). A reader must hold the map as
// it was after a whole number of batches - at least those that had completed when Reader() was called, at most
// those started when it returned - and keep holding exactly that for its whole life.
func kvConcScenario(c *core.Ctx, cfg KVCfg, wl KVWL) {
	env := NewEnv(c, cfg.Sched, 1)
	s := env.S
	defer env.Finish()
	sig := map[string]string{"store": cfg.Store, "mode": "concurrent"}
	st, mo, gate, err := openKVStore(cfg, c.Dir)
	defer gate.done()
	if err != nil {
		c.Res.Harness = "open store: " + err.Error()
		return
	}
	// the states after each batch, rendered
	var batches []KVOp
	for _, op := range wl.Ops {
		if op.C == 0 && op.K == "batch" {
			batches = append(batches, op)
		}
	}
	states := []string{kvModel{}.render()}
	models := []kvModel{{}}
	m := kvModel{}
	for _, b := range batches {
		applyKVBatch(m, mo, b)
		states = append(states, m.render())
		models = append(models, m.clone())
	}
	started, done := 0, 0
	checks := 0
	s.Spawn("writer", func() {
		for _, op := range batches {
			w, err := st.Writer()
			if err != nil {
				c.Violate("writer-error", sig, s.Steps, "Writer(): %v", err)
				return
			}
			b, err := buildKVBatch(w, op)
			if err != nil {
				c.Violate("writer-error", sig, s.Steps, "NewBatchEx: %v", err)
				return
			}
			started++
			if err := w.ExecuteBatch(b); err != nil {
				c.Violate("writer-error", sig, s.Steps, "ExecuteBatch: %v", err)
				return
			}
			done++
			_ = w.Close()
			if gate != nil {
				if gate.due(op.MR) {
					// the scheduler's quiescence wait at this yield lets the merger run until it is idle
					gate.set(false)
					s.Yield("moss.merger")
					gate.set(true)
					c.Probe("moss_merger_ran_until_idle")
				} else {
					c.Fault("moss_merger_stalled_over_batch")
				}
			}
			s.Yield("writer-between-batches")
		}
	})
	nreaders := 0
	for _, op := range wl.Ops {
		if op.C > nreaders {
			nreaders = op.C
		}
	}
	for ri := 1; ri <= nreaders; ri++ {
		ri := ri
		name := fmt.Sprintf("reader%d", ri)
		s.Spawn(name, func() {
			var r store.KVReader
			k := -1
			for _, op := range wl.Ops {
				if op.C != ri {
					continue
				}
				s.Yield("reader-step")
				switch {
				case op.K == "open" && r == nil:
					lo := done
					var err error
					r, err = st.Reader()
					if err != nil {
						c.Violate("reader-error", sig, s.Steps, "Reader(): %v", err)
						return
					}
					hi := started
					got := scanAll(r)
					checks++
					k = -1
					for j := lo; j <= hi && j < len(states); j++ {
						if states[j] == got {
							k = j
							break
						}
					}
					if k < 0 {
						c.Violate("reader-not-at-a-batch-boundary", sig, s.Steps, "%s: a reader created while %d batches were complete and %d started holds\n  %s\nwhich is the map after none of the batches %d..%d:\n  after %d: %s\n  after %d: %s", name, lo, hi, got, lo, hi, lo, states[lo], min(hi, len(states)-1), states[min(hi, len(states)-1)])
						_ = r.Close()
						return
					}
					if hi > lo {
						c.Probe("reader_created_during_a_batch")
					}
				case r == nil:
				case op.K == "close":
					_ = r.Close()
					r = nil
				case op.K == "get":
					checks++
					key := kvKeys[op.Key%len(kvKeys)]
					got, err := r.Get(key)
					want, ok := models[k][string(key)]
					if err != nil || (got == nil) != !ok || !bytes.Equal(got, want) {
						c.Violate("reader-view-changed", sig, s.Steps, "%s (holding the map after batch %d): Get(%x) = %x, expected %x present=%v", name, k, key, got, want, ok)
					}
				default:
					// any other reader op: the whole view is still the one it was created with
					checks++
					if got := scanAll(r); got != states[k] {
						c.Violate("reader-view-changed", sig, s.Steps, "%s: the reader was created holding the map after batch %d and now holds\n  %s\ninstead of\n  %s", name, k, got, states[k])
						_ = r.Close()
						return
					}
					if done > k {
						c.Probe("reader_used_after_later_writes")
					}
				}
			}
			if r != nil {
				_ = r.Close()
			}
		})
	}
	if !env.RunClients("kv") {
		return
	}
	for _, p := range s.Panics() {
		c.Violate("panic", sig, s.Steps, "%s", p)
	}
	// final contents
	if r, err := st.Reader(); err == nil {
		if got := scanAll(r); got != states[done] {
			c.Violate("final-contents-differ", sig, s.Steps, "after %d batches the store holds\n  %s\nthe ordered map\n  %s", done, got, states[done])
		}
		_ = r.Close()
	}
	gate.done()
	if err := st.Close(); err != nil {
		c.Violate("close-error", sig, s.Steps, "store Close: %v", err)
	}
	c.Res.Completed = true
	c.Res.Checks = checks
	c.Res.NonTrivial = checks > 3
	c.Res.Summary = fmt.Sprintf("store=%s mo=%s concurrent batches=%d readers=%d checks=%d steps=%d", cfg.Store, cfg.MO, len(batches), nreaders, checks, s.Steps)
}

var _ = core.Scenarios
