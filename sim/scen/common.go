// Package scen holds the simulated scenarios.
package scen

import (
	"fmt"
	"io"
	"os"
	"path/filepath"
	"sort"
	"strings"
	"sync"
	"testing/synctest"
	"time"

	"bsim/core"
	"bsim/model"
	"bsim/sched"

	"github.com/blevesearch/bleve/v2"
	"github.com/blevesearch/bleve/v2/index/scorch"
	index "github.com/blevesearch/bleve_index_api"
	bolt "go.etcd.io/bbolt"
)

// ---- environment shared by scenarios ---------------------------------------------------------------

// Env owns the per-run global state of bleve that must live inside the bubble.
type Env struct {
	C     *core.Ctx
	S     *sched.Sched
	aq    *index.AnalysisQueue
	oldq  *index.AnalysisQueue
	mu    sync.Mutex
	Async []string // async errors reported by scorch (kind: message)
	// Tainted, when set and true, says an injected I/O fault has fired: from then on a call may fail, a
	// background loop may die and the workload may not finish; only durable-state oracles keep judging.
	Tainted func() bool
}

var asyncSink func(err error, path string)
var eventSink func(e scorch.Event) bool

func init() {
	scorch.RegistryAsyncErrorCallbacks["bsim"] = func(err error, path string) {
		if f := asyncSink; f != nil {
			f(err, path)
		}
	}
	scorch.RegistryEventCallbacks["bsim"] = func(e scorch.Event) bool {
		if f := eventSink; f != nil {
			return f(e)
		}
		return true
	}
}

// NewEnv installs the scheduler and a fresh analysis queue. Must be called inside the bubble.
func NewEnv(c *core.Ctx, sc sched.Config, analysisWorkers int) *Env {
	e := &Env{C: c}
	e.S = sched.New(c.Tape, sc)
	c.Sched = e.S
	if analysisWorkers <= 0 {
		analysisWorkers = 2
	}
	e.aq = index.NewAnalysisQueue(analysisWorkers)
	e.oldq = bleve.SwapAnalysisQueue(e.aq)
	asyncSink = func(err error, path string) {
		e.mu.Lock()
		e.Async = append(e.Async, path+"|"+err.Error())
		e.mu.Unlock()
	}
	eventSink = nil
	return e
}

// Finish drains all tasks, closes the analysis queue, uninstalls hooks and fills the common result fields.
func (e *Env) Finish() {
	e.S.ClearHooks()
	e.S.Drain()
	// goleveldb keeps a pool drainer alive for up to a second after Close: let simulated time pass
	time.Sleep(3 * time.Second)
	synctest.Wait()
	e.aq.Close()
	bleve.SwapAnalysisQueue(e.oldq)
	e.S.Uninstall()
	asyncSink, eventSink = nil, nil
	r := e.C.Res
	r.Steps = e.S.Steps
	r.SimTimeMS = e.S.SimTime().Milliseconds()
	r.Fingerprint = e.S.Fingerprint()
	r.Log = e.S.Log
	if r.Probes == nil {
		r.Probes = map[string]int{}
	}
	r.Probes["lock_waits"] += e.S.LockWaits
	r.Probes["unlock_yields"] += e.S.UnlockYields
	r.Probes["rwmutex_reader_behind_pending_writer_or_writer"] += e.S.WriterPendR
	r.Probes["select_multi_case"] += e.S.SelMulti
	r.Probes["time_steps"] += e.S.TimeSteps
	for _, p := range []string{"bolt.committed", "merge.task.written", "memmerge.task.written", "purge.zap.removed", "merge.introduced", "waiters.released", "callbacks.fired"} {
		if n := e.S.Points[p]; n > 0 {
			r.Probes["reached:"+p] += n
		}
	}
}

// AsyncErrors returns the async errors seen so far.
func (e *Env) AsyncErrors() []string {
	e.mu.Lock()
	defer e.mu.Unlock()
	return append([]string(nil), e.Async...)
}

// RunClients runs the scheduler until all client tasks returned; scheduler trouble is classified.
// It returns false when the run cannot continue.
func (e *Env) RunClients(phase string) bool {
	err := e.S.Run(nil)
	if err == nil {
		return true
	}
	switch v := err.(type) {
	case *sched.ErrStuck:
		if e.Tainted != nil && e.Tainted() {
			e.C.Probe("stuck_after_injected_io_fault")
			e.C.TolerateLeak = true
			return false
		}
		// a deadlock is a C11 violation by definition, whichever property the run was for
		e.C.ViolateProp("C11", "deadlock", map[string]string{"phase": phase}, e.S.Steps, "%v; parked: %v\n%s", v, e.S.ParkedPoints(), trimDump(v.Dump))
		e.C.TolerateLeak = true // the goroutines that are stuck stay behind when the bubble ends; the violation is the report
	default:
		e.C.Res.Harness = fmt.Sprintf("%s: %v; parked: %v", phase, err, e.S.ParkedPoints())
	}
	return false
}

func trimDump(d string) string {
	// keep goroutines that have a bleve frame
	var out []string
	for _, g := range strings.Split(d, "\n\n") {
		if strings.Contains(g, "blevesearch/bleve") {
			lines := strings.Split(g, "\n")
			if len(lines) > 14 {
				lines = lines[:14]
			}
			out = append(out, strings.Join(lines, "\n"))
		}
		if len(out) >= 12 {
			break
		}
	}
	return strings.Join(out, "\n\n")
}

// ---- batches ---------------------------------------------------------------------------------------

// BuildBatch turns a model batch into a bleve batch.
func BuildBatch(idx bleve.Index, b model.Batch, rich bool) (*bleve.Batch, error) {
	bb := idx.NewBatch()
	for _, op := range b.Docs {
		if op.Del {
			bb.Delete(op.ID)
		} else {
			if err := bb.Index(op.ID, model.MakeDoc(op.ID, op.Ver, rich).Input()); err != nil {
				return nil, err
			}
		}
	}
	for _, op := range b.Ints {
		if op.Del {
			bb.DeleteInternal([]byte(op.Key))
		} else {
			bb.SetInternal([]byte(op.Key), []byte(op.Val))
		}
	}
	return bb, nil
}

// ---- observations ----------------------------------------------------------------------------------

// State is a full read-out of an index through its public API.
type State struct {
	Count    uint64
	Docs     map[string]model.Stored // Document(id) for the id space (nil = absent)
	Total    uint64                  // match-all total
	Hits     []string                // match-all hit ids in returned order
	HitVer   map[string]string       // hit id -> stored ver field
	Ints     map[string]string       // internal key -> value ("" + absent flag below)
	IntsSet  map[string]bool
	DocIDHit []string // doc-id query hits
}

type reader interface {
	DocCount() (uint64, error)
	Document(id string) (index.Document, error)
	GetInternal(key []byte) ([]byte, error)
}

// ReadState reads everything the C01 oracle looks at.
func ReadState(idx bleve.Index, ids, keys []string) (*State, error) {
	st := &State{Docs: map[string]model.Stored{}, HitVer: map[string]string{}, Ints: map[string]string{}, IntsSet: map[string]bool{}}
	var err error
	if st.Count, err = idx.DocCount(); err != nil {
		return nil, fmt.Errorf("DocCount: %w", err)
	}
	for _, id := range ids {
		d, err := idx.Document(id)
		if err != nil {
			return nil, fmt.Errorf("Document(%s): %w", id, err)
		}
		st.Docs[id] = model.StoredOf(d)
	}
	req := bleve.NewSearchRequestOptions(bleve.NewMatchAllQuery(), len(ids)+50, 0, false)
	req.Fields = []string{"ver"}
	res, err := idx.Search(req)
	if err != nil {
		return nil, fmt.Errorf("Search(match_all): %w", err)
	}
	st.Total = res.Total
	for _, h := range res.Hits {
		st.Hits = append(st.Hits, h.ID)
		st.HitVer[h.ID] = fmt.Sprint(h.Fields["ver"])
	}
	req2 := bleve.NewSearchRequestOptions(bleve.NewDocIDQuery(ids), len(ids)+50, 0, false)
	res2, err := idx.Search(req2)
	if err != nil {
		return nil, fmt.Errorf("Search(doc_id): %w", err)
	}
	for _, h := range res2.Hits {
		st.DocIDHit = append(st.DocIDHit, h.ID)
	}
	for _, k := range keys {
		v, err := idx.GetInternal([]byte(k))
		if err != nil {
			return nil, fmt.Errorf("GetInternal(%s): %w", k, err)
		}
		if v != nil {
			st.Ints[k] = string(v)
			st.IntsSet[k] = true
		}
	}
	return st, nil
}

// CheckState compares a read-out with the map model; it returns one line per mismatch.
func CheckState(st *State, m *model.MapModel, ids, keys []string, rich bool) []string {
	return CheckStateN(st, m, ids, keys, rich, false)
}

// CheckStateN is CheckState for an index whose "items" array may be mapped as nested: the stored fields of nested
// elements live in the nested sub-documents and are not part of Document(id).
func CheckStateN(st *State, m *model.MapModel, ids, keys []string, rich, nested bool) []string {
	var bad []string
	if st.Count != uint64(len(m.Docs)) {
		bad = append(bad, fmt.Sprintf("DocCount=%d, model has %d live ids", st.Count, len(m.Docs)))
	}
	for _, id := range ids {
		got := st.Docs[id]
		v, live := m.Docs[id]
		if !live {
			if got != nil {
				bad = append(bad, fmt.Sprintf("Document(%s) = %v, model: absent", id, got))
			}
			continue
		}
		want := model.MakeDoc(id, v, rich).ExpectStored()
		if nested {
			for f := range want {
				if strings.HasPrefix(f, "items.") || strings.HasPrefix(f, "extras.") {
					delete(want, f)
				}
			}
		}
		if got == nil {
			bad = append(bad, fmt.Sprintf("Document(%s) = nil, model: %v", id, want))
		} else if got.String() != want.String() {
			bad = append(bad, fmt.Sprintf("Document(%s) = %v, model: %v", id, got, want))
		}
	}
	live := m.LiveIDs()
	if st.Total != uint64(len(live)) {
		bad = append(bad, fmt.Sprintf("match_all Total=%d, model has %d live ids", st.Total, len(live)))
	}
	hs := append([]string(nil), st.Hits...)
	sort.Strings(hs)
	if strings.Join(hs, ",") != strings.Join(live, ",") {
		bad = append(bad, fmt.Sprintf("match_all ids=%v, model live ids=%v", hs, live))
	}
	for _, id := range st.Hits {
		if v, ok := m.Docs[id]; ok {
			if want := fmt.Sprintf("%s#%d", id, v); st.HitVer[id] != want {
				bad = append(bad, fmt.Sprintf("match_all hit %s carries ver=%q, model: %q", id, st.HitVer[id], want))
			}
		}
	}
	ds := append([]string(nil), st.DocIDHit...)
	sort.Strings(ds)
	if strings.Join(ds, ",") != strings.Join(live, ",") {
		bad = append(bad, fmt.Sprintf("doc_id query ids=%v, model live ids=%v", ds, live))
	}
	for _, k := range keys {
		want, ok := m.Ints[k]
		if ok != st.IntsSet[k] || want != st.Ints[k] {
			bad = append(bad, fmt.Sprintf("GetInternal(%s)=%q(set=%v), model %q(set=%v)", k, st.Ints[k], st.IntsSet[k], want, ok))
		}
	}
	return bad
}

// ---- files -----------------------------------------------------------------------------------------

// CopyDir copies a directory tree (regular files only).
func CopyDir(src, dst string) error {
	return filepath.Walk(src, func(p string, info os.FileInfo, err error) error {
		if err != nil {
			return err
		}
		rel, _ := filepath.Rel(src, p)
		if info.IsDir() {
			return os.MkdirAll(filepath.Join(dst, rel), 0o700)
		}
		in, err := os.Open(p)
		if err != nil {
			if os.IsNotExist(err) {
				return nil
			}
			return err
		}
		defer in.Close()
		out, err := os.Create(filepath.Join(dst, rel))
		if err != nil {
			return err
		}
		defer out.Close()
		_, err = io.Copy(out, in)
		return err
	})
}

// BoltSnapshot is one snapshot bucket of root.bolt.
type BoltSnapshot struct {
	Epoch    uint64
	Files    []string
	Internal map[string]string
}

func decodeUvarintAscending(b []byte) (uint64, bool) {
	const intZero, intSmall = 136, 109
	if len(b) == 0 || int(b[0]) < intZero {
		return 0, false
	}
	length := int(b[0]) - intZero
	b = b[1:]
	if length <= intSmall {
		return uint64(length), true
	}
	length -= intSmall
	if length < 0 || length > 8 || len(b) < length {
		return 0, false
	}
	var v uint64
	for _, t := range b[:length] {
		v = (v << 8) | uint64(t)
	}
	return v, true
}

// ReadRootBolt lists the snapshot buckets of <dir>/store/root.bolt, oldest first. The file is opened
// read-only through a private copy so that the live instance's flock is not disturbed.
func ReadRootBolt(storeDir string) ([]BoltSnapshot, error) {
	src := filepath.Join(storeDir, "root.bolt")
	tmp := src + ".ro-copy"
	b, err := os.ReadFile(src)
	if err != nil {
		return nil, err
	}
	if err := os.WriteFile(tmp, b, 0o600); err != nil {
		return nil, err
	}
	defer os.Remove(tmp)
	db, err := bolt.Open(tmp, 0o600, &bolt.Options{ReadOnly: true})
	if err != nil {
		return nil, err
	}
	defer db.Close()
	var out []BoltSnapshot
	err = db.View(func(tx *bolt.Tx) error {
		sb := tx.Bucket([]byte{'s'})
		if sb == nil {
			return nil
		}
		return sb.ForEach(func(k, v []byte) error {
			ep, ok := decodeUvarintAscending(k)
			if !ok {
				return nil
			}
			snap := sb.Bucket(k)
			if snap == nil {
				return nil
			}
			bs := BoltSnapshot{Epoch: ep, Internal: map[string]string{}}
			_ = snap.ForEach(func(k2, v2 []byte) error {
				if v2 != nil {
					return nil
				}
				sub := snap.Bucket(k2)
				if sub == nil {
					return nil
				}
				switch {
				case len(k2) == 1 && k2[0] == 'i':
					_ = sub.ForEach(func(ik, iv []byte) error {
						bs.Internal[string(ik)] = string(iv)
						return nil
					})
				case len(k2) == 1 && k2[0] == 'm':
				default:
					if p := sub.Get([]byte{'p'}); p != nil {
						bs.Files = append(bs.Files, string(p))
					}
				}
				return nil
			})
			out = append(out, bs)
			return nil
		})
	})
	sort.Slice(out, func(i, j int) bool { return out[i].Epoch < out[j].Epoch })
	return out, err
}

// ListZap lists *.zap files of a store directory.
func ListZap(storeDir string) []string {
	ents, _ := os.ReadDir(storeDir)
	var out []string
	for _, e := range ents {
		if strings.HasSuffix(e.Name(), ".zap") {
			out = append(out, e.Name())
		}
	}
	sort.Strings(out)
	return out
}
