package sched

import (
	"bytes"
	"fmt"
	"hash/fnv"
	"runtime"
	"sort"
	"strconv"
	"strings"
	"sync"
	"sync/atomic"
	"testing/synctest"
	"time"

	"github.com/blevesearch/bleve/v2/util/simhook"
)

func goid() int64 {
	var buf [64]byte
	n := runtime.Stack(buf[:], false)
	f := bytes.Fields(buf[:n])
	id, _ := strconv.ParseInt(string(f[1]), 10, 64)
	return id
}

// Policy names.
const (
	PolUniform = "uniform"
	PolPCT     = "pct"
	PolStarve  = "starve"
	PolBurst   = "burst"
)

// Config of the scheduler for one run (part of the replay file).
type Config struct {
	Policy     string `json:"policy"`
	StarveRole string `json:"starve_role,omitempty"` // substring of the role to starve (persisterLoop, mergerLoop, introducerLoop)
	Burst      int    `json:"burst,omitempty"`
	PCTDepth   int    `json:"pct_depth,omitempty"`
	TimeEvery  int    `json:"time_every,omitempty"` // 1 in N steps lets simulated time pass (0 = only when idle)
	MaxSteps   int    `json:"max_steps,omitempty"`
	// UnlockYield: after releasing a lock a task is descheduled with probability 1/UnlockYield (0 = never): the
	// window between "looked at shared state under the lock" and "acts on what it saw" opens at the unlock
	UnlockYield int `json:"unlock_yield,omitempty"`
}

type task struct {
	name, role string
	client     bool
	prio       int
	root       string // role of the top-most instrumented ancestor (for starve)
}

type parked struct {
	t       *task
	point   string
	ch      chan struct{}
	waitOn  any
	enabled bool
}

// StepInfo is passed to step hooks: every task is parked or durably blocked when a hook runs.
type StepInfo struct {
	Step  int
	Name  string // task about to be released
	Role  string
	Point string // the point it is parked at (= the step it has just completed)
}

// Sched is a token-passing scheduler over synctest.Wait.
type Sched struct {
	mu      sync.Mutex
	cfg     Config
	tape    *Tape
	parked  map[string]*parked
	byGoid  map[int64]*task
	spawned map[string]int
	live    int // unfinished client tasks
	tasks   int // unfinished tasks of any kind

	Log          []string
	Steps        int
	hash         uint64
	Points       map[string]int // how often each point label was scheduled
	LockWaits    int
	UnlockYields int
	SelMulti     int // selects resolved with >= 2 cases polled
	UnknownY     int
	TimeSteps    int
	last         string
	burstLeft    int
	pctChange    map[int]bool
	hooks        []func(*StepInfo)
	start        time.Time
	draining     bool
	drainWaits   atomic.Int64
	panics       []string
	WriterPendR  int            // RWMutex reader arrived while a writer was pending
	own          map[string]int // scheduling steps taken by each task (its own progress, independent of fairness)
}

// New creates a scheduler and installs the simhook functions. Must be called inside a synctest bubble.
func New(tape *Tape, cfg Config) *Sched {
	if cfg.MaxSteps == 0 {
		cfg.MaxSteps = 200000
	}
	s := &Sched{cfg: cfg, tape: tape, parked: map[string]*parked{}, byGoid: map[int64]*task{}, spawned: map[string]int{},
		Points: map[string]int{}, start: time.Now(), hash: 14695981039346656037, own: map[string]int{}}
	if cfg.Policy == PolPCT {
		s.pctChange = map[int]bool{}
		d := cfg.PCTDepth
		if d == 0 {
			d = 3
		}
		for i := 0; i < d; i++ {
			s.pctChange[1+tape.Intn(400)] = true
		}
	}
	simhook.YieldFn = s.yield
	simhook.GoFn = s.goFn
	simhook.LockWaitFn = s.lockWait
	simhook.UnlockedFn = s.unlocked
	simhook.SelectOrderFn = s.selectOrder
	return s
}

// Uninstall removes the hooks.
func (s *Sched) Uninstall() {
	simhook.YieldFn, simhook.GoFn, simhook.LockWaitFn, simhook.UnlockedFn, simhook.SelectOrderFn = nil, nil, nil, nil, nil
}

func (s *Sched) me() *task {
	id := goid()
	s.mu.Lock()
	defer s.mu.Unlock()
	return s.byGoid[id]
}

// Me returns the name of the calling task ("" if the caller is not a task).
func (s *Sched) Me() string {
	if t := s.me(); t != nil {
		return t.name
	}
	return ""
}

func (s *Sched) park(t *task, point string, waitOn any) {
	p := &parked{t: t, point: point, ch: make(chan struct{}), waitOn: waitOn, enabled: waitOn == nil}
	s.mu.Lock()
	if _, dup := s.parked[t.name]; dup {
		s.mu.Unlock()
		panic("bsim: task parked twice: " + t.name)
	}
	s.parked[t.name] = p
	s.mu.Unlock()
	<-p.ch
}

func (s *Sched) yield(role, point string) {
	t := s.me()
	if t == nil {
		s.mu.Lock()
		s.UnknownY++
		s.mu.Unlock()
		return
	}
	if s.draining {
		return
	}
	s.park(t, point, nil)
}

// Yield is an explicit scheduling point for client tasks.
func (s *Sched) Yield(point string) { s.yield("", point) }

func (s *Sched) lockWait(m any, kind string) {
	t := s.me()
	if t == nil || s.draining {
		if s.draining {
			// free-running at the end of a run: wait in fake time, so that a waiter behind a holder that is stuck
			// for good (a deadlock the run has already reported) does not spin and keep the bubble from settling;
			// after 10 simulated seconds of such waits the waiter gives up and stays blocked
			if s.drainWaits.Add(1) > 100000 {
				select {}
			}
			time.Sleep(100 * time.Microsecond)
			return
		}
		runtime.Gosched()
		return
	}
	s.mu.Lock()
	s.LockWaits++
	if kind == "rlock" {
		s.WriterPendR++
	}
	s.mu.Unlock()
	s.park(t, "lockwait:"+kind, m)
}

func (s *Sched) unlocked(m any) {
	s.mu.Lock()
	for _, p := range s.parked {
		if p.waitOn == m {
			p.enabled = true
		}
	}
	s.mu.Unlock()
	if s.cfg.UnlockYield > 0 && !s.draining {
		if t := s.me(); t != nil && s.tape.Intn(s.cfg.UnlockYield) == 1 { // a zero tape value never yields here
			s.mu.Lock()
			s.UnlockYields++
			s.mu.Unlock()
			s.park(t, "unlock:", nil)
		}
	}
}

// Progress counts scheduling steps of all runs of the process; the wall-clock watchdog uses it to tell a task that
// spins without ever yielding from a run that is merely slow.
var Progress atomic.Int64

var identity = []int{0, 1, 2, 3, 4, 5, 6, 7, 8, 9, 10, 11, 12, 13, 14, 15}

func (s *Sched) selectOrder(site string, n int) []int {
	if n < 2 || s.draining || s.me() == nil {
		return identity[:n]
	}
	perm := make([]int, n)
	for i := range perm {
		perm[i] = i
	}
	for i := n - 1; i > 0; i-- {
		j := s.tape.Intn(i + 1)
		perm[i], perm[j] = perm[j], perm[i]
	}
	s.mu.Lock()
	s.SelMulti++
	s.mu.Unlock()
	return perm
}

func (s *Sched) goFn(role string, f func()) {
	parent := s.me()
	if parent == nil || s.draining {
		go f()
		return
	}
	s.mu.Lock()
	n := s.spawned[parent.name]
	s.spawned[parent.name] = n + 1
	s.mu.Unlock()
	root := parent.root
	if root == "" {
		root = role
	}
	s.spawn(&task{name: fmt.Sprintf("%s/%d", parent.name, n), role: role, root: root}, f)
}

// Spawn starts a client task (the run ends when all client tasks have returned).
func (s *Sched) Spawn(name string, f func()) {
	s.spawn(&task{name: name, role: "client", client: true}, f)
}

func (s *Sched) spawn(t *task, f func()) {
	s.mu.Lock()
	if t.client {
		s.live++
	}
	s.tasks++
	s.mu.Unlock()
	if s.cfg.Policy == PolPCT {
		t.prio = 1000 + s.tape.Intn(1000)
	}
	go func() {
		id := goid()
		s.mu.Lock()
		s.byGoid[id] = t
		s.mu.Unlock()
		defer func() {
			if r := recover(); r != nil {
				buf := make([]byte, 16<<10)
				buf = buf[:runtime.Stack(buf, false)]
				s.mu.Lock()
				s.panics = append(s.panics, fmt.Sprintf("task %s (%s): panic: %v\n%s", t.name, t.role, r, buf))
				s.mu.Unlock()
			}
			s.mu.Lock()
			delete(s.byGoid, id)
			if t.client {
				s.live--
			}
			s.tasks--
			s.mu.Unlock()
		}()
		s.yield("", "start")
		f()
	}()
}

// Panics returns panics caught in tasks (each is a property violation for C11, a harness bug otherwise).
func (s *Sched) Panics() []string {
	s.mu.Lock()
	defer s.mu.Unlock()
	return append([]string(nil), s.panics...)
}

// OnStep registers a hook run by the scheduler goroutine before every release.
func (s *Sched) OnStep(f func(*StepInfo)) { s.hooks = append(s.hooks, f) }

// ClearHooks removes all step hooks.
func (s *Sched) ClearHooks() { s.hooks = nil }

// SimTime is the simulated time elapsed since the scheduler was created.
func (s *Sched) SimTime() time.Duration { return time.Since(s.start) }

// Fingerprint is a hash of the task@point sequence so far.
func (s *Sched) Fingerprint() string { return fmt.Sprintf("%016x", s.hash) }

// ErrStuck is returned when no task can run and simulated time brings nothing: a deadlock.
type ErrStuck struct {
	Waiters []string
	Dump    string
}

func (e *ErrStuck) Error() string {
	return fmt.Sprintf("deadlock: no task can run and no timer fires; parked lock waiters: %v", e.Waiters)
}

// ErrSteps is returned when the step cap is reached.
type ErrSteps struct{ N int }

func (e *ErrSteps) Error() string { return fmt.Sprintf("step cap %d reached", e.N) }

var timeChoices = []time.Duration{time.Millisecond, 20 * time.Millisecond, 200 * time.Millisecond, time.Second, 5 * time.Second, time.Minute}

func (s *Sched) enabledLocked() []*parked {
	var en []*parked
	for _, p := range s.parked {
		if p.enabled {
			en = append(en, p)
		}
	}
	sort.Slice(en, func(i, j int) bool { return en[i].t.name < en[j].t.name })
	return en
}

func (s *Sched) pick(en []*parked) *parked {
	n := len(en)
	if n == 1 {
		return en[0]
	}
	switch s.cfg.Policy {
	case PolPCT:
		if s.pctChange[s.Steps] {
			// lower the priority of the task that ran last
			for _, p := range en {
				if p.t.name == s.last {
					p.t.prio = s.tape.Intn(1000)
				}
			}
		}
		best := en[0]
		for _, p := range en[1:] {
			if p.t.prio > best.t.prio {
				best = p
			}
		}
		return best
	case PolBurst:
		if s.burstLeft > 0 {
			for _, p := range en {
				if p.t.name == s.last {
					s.burstLeft--
					return p
				}
			}
		}
		b := s.cfg.Burst
		if b == 0 {
			b = 8
		}
		s.burstLeft = s.tape.Intn(b)
		return en[s.tape.Intn(n)]
	case PolStarve:
		var rest []*parked
		for _, p := range en {
			// the starved role is matched against the callee a background task was started with, or against
			// the name of a client task
			if !strings.Contains(p.t.root, s.cfg.StarveRole) && !(p.t.client && strings.HasPrefix(p.t.name, s.cfg.StarveRole)) {
				rest = append(rest, p)
			}
		}
		// the starved role still runs now and then, and whenever nobody else can
		if len(rest) > 0 && len(rest) < n && s.tape.Intn(24) != 0 {
			return rest[s.tape.Intn(len(rest))]
		}
		return en[s.tape.Intn(n)]
	}
	return en[s.tape.Intn(n)]
}

func (s *Sched) release(p *parked) {
	s.mu.Lock()
	delete(s.parked, p.t.name)
	s.mu.Unlock()
	ev := p.t.name + "@" + p.point
	s.Log = append(s.Log, ev)
	h := fnv.New64a()
	h.Write([]byte(ev))
	s.hash = (s.hash ^ h.Sum64()) * 1099511628211
	s.Points[p.point]++
	s.own[p.t.name]++
	s.Steps++
	Progress.Add(1)
	s.last = p.t.name
	close(p.ch)
}

// OwnSteps is the number of scheduling steps task name has taken so far: a measure of its own progress that
// does not depend on how (un)fairly the schedule treats it.
func (s *Sched) OwnSteps(name string) int { return s.own[name] }

// Note appends an observation to the event log (and the fingerprint) without scheduling anything.
func (s *Sched) Note(ev string) {
	s.mu.Lock()
	defer s.mu.Unlock()
	s.Log = append(s.Log, "# "+ev)
	h := fnv.New64a()
	h.Write([]byte(ev))
	s.hash = (s.hash ^ h.Sum64()) * 1099511628211
}

// Run schedules tasks until every client task has returned (until == nil) or until() reports true.
// It returns *ErrStuck on a deadlock and *ErrSteps when the step cap is reached.
func (s *Sched) Run(until func() bool) error {
	idle := 0
	var idleTotal time.Duration
	for {
		synctest.Wait()
		s.mu.Lock()
		live := s.live
		en := s.enabledLocked()
		nparked := len(s.parked)
		var waiters []string
		if len(en) == 0 {
			for _, p := range s.parked {
				waiters = append(waiters, p.t.name+"@"+p.point)
			}
			sort.Strings(waiters)
		}
		s.mu.Unlock()
		if until == nil && live == 0 {
			return nil
		}
		if until != nil && until() {
			return nil
		}
		if len(en) == 0 {
			// nobody can run: let simulated time pass (timers fire in order); if that brings nothing, it is a deadlock
			d := time.Millisecond << uint(min(idle, 20))
			if d > 10*time.Minute {
				d = 10 * time.Minute
			}
			time.Sleep(d)
			idle++
			idleTotal += d
			s.TimeSteps++
			if idleTotal > 3*time.Hour {
				if until != nil && nparked == 0 {
					return nil // quiescent: nothing parked, nothing fires
				}
				buf := make([]byte, 1<<20)
				buf = buf[:runtime.Stack(buf, true)]
				return &ErrStuck{Waiters: waiters, Dump: string(buf)}
			}
			continue
		}
		idle, idleTotal = 0, 0
		// (a zero tape value - the padding of shortened replay tapes - must mean "no time step", or a padded
		// replay would sleep forever)
		if s.cfg.TimeEvery > 0 && s.tape.Intn(s.cfg.TimeEvery) == s.cfg.TimeEvery-1 {
			time.Sleep(timeChoices[s.tape.Intn(len(timeChoices))])
			s.TimeSteps++
			continue // the enabled set may have changed
		}
		p := s.pick(en)
		if len(s.hooks) > 0 {
			si := &StepInfo{Step: s.Steps, Name: p.t.name, Role: p.t.root, Point: p.point}
			for _, h := range s.hooks {
				h(si)
			}
		}
		s.release(p)
		if s.Steps > s.cfg.MaxSteps {
			return &ErrSteps{s.cfg.MaxSteps}
		}
	}
}

// Quiesce runs until nothing is parked and simulated time (up to horizon) enables nobody: every
// background loop is blocked in its wait select. Client tasks must have finished or be blocked.
func (s *Sched) Quiesce(horizon time.Duration) error {
	var idleTotal time.Duration
	idle := 0
	for {
		synctest.Wait()
		s.mu.Lock()
		en := s.enabledLocked()
		nparked := len(s.parked)
		s.mu.Unlock()
		if len(en) == 0 {
			if idleTotal >= horizon {
				if nparked != 0 {
					return &ErrStuck{Waiters: []string{fmt.Sprint(nparked, " lock waiters at quiescence")}}
				}
				return nil
			}
			d := time.Millisecond << uint(min(idle, 20))
			if d > horizon-idleTotal {
				d = horizon - idleTotal
			}
			time.Sleep(d)
			idle++
			idleTotal += d
			continue
		}
		idle, idleTotal = 0, 0
		p := s.pick(en)
		if len(s.hooks) > 0 {
			si := &StepInfo{Step: s.Steps, Name: p.t.name, Role: p.t.root, Point: p.point}
			for _, h := range s.hooks {
				h(si)
			}
		}
		s.release(p)
		if s.Steps > s.cfg.MaxSteps {
			return &ErrSteps{s.cfg.MaxSteps}
		}
	}
}

// Drain switches to free mode and releases every parked task so that goroutines can finish.
func (s *Sched) Drain() {
	s.draining = true
	for i := 0; i < 10000; i++ {
		synctest.Wait()
		s.mu.Lock()
		ps := s.parked
		s.parked = map[string]*parked{}
		s.mu.Unlock()
		if len(ps) == 0 {
			return
		}
		for _, p := range ps {
			close(p.ch)
		}
	}
}

// Live reports the number of unfinished client tasks and of all tasks.
func (s *Sched) Live() (clients, all int) {
	s.mu.Lock()
	defer s.mu.Unlock()
	return s.live, s.tasks
}

// ParkedPoints lists "task@point" of everything parked (for diagnostics).
func (s *Sched) ParkedPoints() []string {
	s.mu.Lock()
	defer s.mu.Unlock()
	var out []string
	for _, p := range s.parked {
		out = append(out, p.t.name+"("+p.t.role+")@"+p.point)
	}
	sort.Strings(out)
	return out
}
