// Package sched is the deterministic scheduler of bsim: one logical thread at a time, chosen from a tape.
package sched

import "sync"

// Tape is the single source of every scheduling decision of a run. In generate mode values come from a
// splitmix/PCG-style stream seeded by the run seed and are recorded; in replay mode they come from the
// recorded list, padded with zeros ("lowest-named task first, first case first").
type Tape struct {
	mu     sync.Mutex
	state  uint64
	replay []uint32
	isRep  bool
	Rec    []uint32
}

func NewTape(seed uint64) *Tape { return &Tape{state: seed*0x9E3779B97F4A7C15 + 0x1234567} }

func ReplayTape(vals []uint32) *Tape { return &Tape{replay: vals, isRep: true} }

func (t *Tape) next() uint32 {
	var v uint32
	if t.isRep {
		if len(t.Rec) < len(t.replay) {
			v = t.replay[len(t.Rec)]
		}
	} else {
		// splitmix64
		t.state += 0x9E3779B97F4A7C15
		z := t.state
		z = (z ^ (z >> 30)) * 0xBF58476D1CE4E5B9
		z = (z ^ (z >> 27)) * 0x94D049BB133111EB
		z ^= z >> 31
		v = uint32(z >> 32)
	}
	t.Rec = append(t.Rec, v)
	return v
}

// Intn draws a value in [0,n); n<=1 consumes nothing.
func (t *Tape) Intn(n int) int {
	if n <= 1 {
		return 0
	}
	t.mu.Lock()
	defer t.mu.Unlock()
	return int(t.next() % uint32(n))
}

// Pos is the number of values consumed so far.
func (t *Tape) Pos() int {
	t.mu.Lock()
	defer t.mu.Unlock()
	return len(t.Rec)
}

// Rand is a small deterministic generator for workload/config generation (not part of the tape).
type Rand struct{ s uint64 }

func NewRand(seed uint64) *Rand { return &Rand{s: seed*0xD1342543DE82EF95 + 0xABCDEF} }

func (r *Rand) U64() uint64 {
	r.s += 0x9E3779B97F4A7C15
	z := r.s
	z = (z ^ (z >> 30)) * 0xBF58476D1CE4E5B9
	z = (z ^ (z >> 27)) * 0x94D049BB133111EB
	return z ^ (z >> 31)
}

func (r *Rand) Intn(n int) int {
	if n <= 1 {
		return 0
	}
	return int(r.U64() % uint64(n))
}

func (r *Rand) Chance(num, den int) bool { return r.Intn(den) < num }

func (r *Rand) Pick(xs ...int) int { return xs[r.Intn(len(xs))] }
