package bsim

import (
	"encoding/json"
	"fmt"
	"os"
	"sort"
	"testing"
	"time"

	"bsim/core"
	"bsim/model"
	"bsim/qeval"
	"bsim/scen"

	"github.com/blevesearch/bleve/v2"
)

func unstable(idx bleve.Index, q qeval.Q) (bool, []string) {
	var outs []string
	for rep := 0; rep < 6; rep++ {
		req := bleve.NewSearchRequestOptions(q.Bleve(), 100, 0, false)
		res, err := idx.Search(req)
		if err != nil {
			return false, nil
		}
		var ids []string
		for _, h := range res.Hits {
			ids = append(ids, h.ID)
		}
		sort.Strings(ids)
		outs = append(outs, fmt.Sprint(res.Total, ids))
	}
	for _, o := range outs[1:] {
		if o != outs[0] {
			return true, outs
		}
	}
	return false, outs
}

func children(q qeval.Q) []qeval.Q {
	var out []qeval.Q
	out = append(out, q.Sub...)
	out = append(out, q.Must...)
	out = append(out, q.Shd...)
	out = append(out, q.Not...)
	// drop one element of each list
	drop := func(l []qeval.Q, set func(*qeval.Q, []qeval.Q)) {
		for i := range l {
			c := q
			nl := append(append([]qeval.Q(nil), l[:i]...), l[i+1:]...)
			set(&c, nl)
			if c.DMin > len(nl) && (len(q.Sub) > 0 || len(q.Shd) > 0) {
				c.DMin = len(nl)
			}
			out = append(out, c)
		}
		// recurse into element i
		for i := range l {
			for _, sc := range children(l[i]) {
				c := q
				nl := append([]qeval.Q(nil), l...)
				nl[i] = sc
				set(&c, nl)
				out = append(out, c)
			}
		}
	}
	drop(q.Sub, func(c *qeval.Q, l []qeval.Q) { c.Sub = l })
	drop(q.Must, func(c *qeval.Q, l []qeval.Q) { c.Must = l })
	drop(q.Shd, func(c *qeval.Q, l []qeval.Q) { c.Shd = l })
	drop(q.Not, func(c *qeval.Q, l []qeval.Q) { c.Not = l })
	return out
}

// TestShrinkUnstableQuery shrinks the first query of a hist replay file whose repeated execution on a plain
// index gives different answers.
func TestShrinkUnstableQuery(t *testing.T) {
	if *fReplay == "" {
		t.Skip("no -bsim.replay")
	}
	b, _ := os.ReadFile(*fReplay)
	var spec core.Spec
	json.Unmarshal(b, &spec)
	var cfg scen.HistCfg
	var wl scen.HistWL
	json.Unmarshal(spec.Config, &cfg)
	json.Unmarshal(spec.Workload, &wl)
	ic := cfg.B
	if os.Getenv("BSIM_DEBUG_A") != "" {
		ic = cfg.A
	}
	fmt.Printf("config: %+v\n", ic)
	idx, err := ic.Create(t.TempDir()+"/i", model.Mapping(cfg.Nested))
	if err != nil {
		t.Fatal(err)
	}
	defer idx.Close()
	m := model.NewMapModel()
	for _, op := range wl.Ops {
		switch op.K {
		case "index":
			idx.Index(op.ID, model.MakeDoc(op.ID, op.Ver, cfg.Rich).Input())
			m.Docs[op.ID] = op.Ver
		case "delete":
			idx.Delete(op.ID)
			delete(m.Docs, op.ID)
		case "batch":
			if op.Batch != nil {
				bb, _ := scen.BuildBatch(idx, *op.Batch, cfg.Rich)
				idx.Batch(bb)
				m.Apply(*op.Batch)
			}
		case "query":
			time.Sleep(300 * time.Millisecond)
			bad, _ := unstable(idx, *op.Q)
			if !bad {
				continue
			}
			q := *op.Q
			for {
				progress := false
				for _, c := range children(q) {
					if ok, _ := unstable(idx, c); ok {
						q = c
						progress = true
						break
					}
				}
				if !progress {
					break
				}
			}
			_, outs := unstable(idx, q)
			fmt.Printf("MINIMAL UNSTABLE QUERY: %s\n", q)
			for _, o := range outs {
				fmt.Println("   ", o)
			}
			js, _ := json.Marshal(q)
			fmt.Println(string(js))
			fmt.Println("live docs:")
			for _, id := range m.LiveIDs() {
				d := model.MakeDoc(id, m.Docs[id], cfg.Rich)
				fmt.Printf("  %s body=%v titles=%v num=%v(%v)\n", id, d.Body, d.Titles, d.Num, d.HasNum)
			}
			return
		}
	}
}
