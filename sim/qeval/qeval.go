// Package qeval is an independent evaluator of the documented meaning of bleve queries over model
// documents. It never calls a bleve searcher.
package qeval

import (
	"fmt"
	"math"
	"regexp"
	"strings"
	"time"
	"unicode"

	"bsim/model"

	"github.com/blevesearch/bleve/v2"
	"github.com/blevesearch/bleve/v2/search/query"
)

// Q is a serialisable query tree (part of replay files).
type Q struct {
	T     string   `json:"t"` // term match phrase matchphrase prefix wildcard regexp fuzzy termrange numrange daterange bool docid all none conj disj boolean
	F     string   `json:"f,omitempty"`
	S     string   `json:"s,omitempty"`
	Terms []string `json:"terms,omitempty"`
	IDs   []string `json:"ids,omitempty"`
	And   bool     `json:"and,omitempty"`
	Fuzz  int      `json:"fuzz,omitempty"`
	Pre   int      `json:"pre,omitempty"`
	Min   *float64 `json:"min,omitempty"`
	Max   *float64 `json:"max,omitempty"`
	SMin  string   `json:"smin,omitempty"`
	SMax  string   `json:"smax,omitempty"`
	IMin  *bool    `json:"imin,omitempty"`
	IMax  *bool    `json:"imax,omitempty"`
	B     bool     `json:"b,omitempty"`
	Sub   []Q      `json:"sub,omitempty"`
	DMin  int      `json:"dmin,omitempty"`
	Must  []Q      `json:"must,omitempty"`
	Shd   []Q      `json:"should,omitempty"`
	Not   []Q      `json:"must_not,omitempty"`
	Flt   []Q      `json:"filter,omitempty"` // boolean: at most one filter clause (restricts, never scores)
}

// Tok is one analysed token.
type Tok struct {
	Term string
	Pos  int // 1-based position inside its array element
	Elem int
}

// EvalDoc is the analysed view of a model document.
type EvalDoc struct {
	ID    string
	Toks  map[string][]Tok
	Nums  map[string][]float64
	Dates map[string][]time.Time
	Bools map[string][]bool
	// Kids holds, per nested array name ("items", "parts", "extras"), one node per array element carrying only
	// that element's own fields (and its own Kids); the maps above hold this node's own fields plus, at the root,
	// the flattened fields of all descendants (the non-nested view)
	Kids map[string][]*EvalDoc
}

func simpleTok(s string) []string {
	return strings.FieldsFunc(strings.ToLower(s), func(r rune) bool { return !unicode.IsLetter(r) })
}

func newEvalDoc(id string) *EvalDoc {
	return &EvalDoc{ID: id, Toks: map[string][]Tok{}, Nums: map[string][]float64{}, Dates: map[string][]time.Time{}, Bools: map[string][]bool{}}
}

func (e *EvalDoc) addText(field, v string, elem int) {
	for i, t := range simpleTok(v) {
		e.Toks[field] = append(e.Toks[field], Tok{t, i + 1, elem})
	}
}

func (e *EvalDoc) addKw(field, v string, elem int) {
	e.Toks[field] = append(e.Toks[field], Tok{v, 1, elem})
}

// Analyse builds the analysed view of a model document (what the mapping of model.Mapping indexes).
func Analyse(d model.Doc) *EvalDoc {
	e := newEvalDoc(d.ID)
	e.addKw("ver", d.Ver, 0)
	if d.Kw != "" {
		e.addKw("kw", d.Kw, 0)
	}
	if len(d.Body) > 0 {
		e.addText("body", strings.Join(d.Body, " "), 0)
	}
	for i, t := range d.Tags {
		e.addKw("tags", t, i)
	}
	for i, t := range d.Titles {
		e.addText("titles", t, i)
	}
	if d.HasNum {
		e.Nums["num"] = append(e.Nums["num"], d.Num)
	}
	if d.Date != "" {
		tm, _ := time.Parse(time.RFC3339, d.Date)
		e.Dates["date"] = append(e.Dates["date"], tm)
	}
	if d.HasFlag {
		e.Bools["flag"] = append(e.Bools["flag"], d.Flag)
	}
	e.Kids = map[string][]*EvalDoc{}
	for i, it := range d.Items {
		ie := newEvalDoc(d.ID)
		ie.Kids = map[string][]*EvalDoc{}
		ie.addKw("items.color", it.Color, 0)
		ie.Nums["items.size"] = append(ie.Nums["items.size"], it.Size)
		e.addKw("items.color", it.Color, i)
		e.Nums["items.size"] = append(e.Nums["items.size"], it.Size)
		if it.Note != "" {
			ie.addText("items.note", it.Note, 0)
			e.addText("items.note", it.Note, i)
		}
		for j, p := range it.Parts {
			pe := newEvalDoc(d.ID)
			pe.addKw("items.parts.code", p.Code, 0)
			ie.Kids["parts"] = append(ie.Kids["parts"], pe)
			e.addKw("items.parts.code", p.Code, i*8+j)
		}
		e.Kids["items"] = append(e.Kids["items"], ie)
	}
	for i, x := range d.Extras {
		xe := newEvalDoc(d.ID)
		xe.addKw("extras.kind", x.Kind, 0)
		e.Kids["extras"] = append(e.Kids["extras"], xe)
		e.addKw("extras.kind", x.Kind, i)
	}
	return e
}

func lev(a, b string) int {
	ra, rb := []rune(a), []rune(b)
	prev := make([]int, len(rb)+1)
	for j := range prev {
		prev[j] = j
	}
	for i := 1; i <= len(ra); i++ {
		cur := make([]int, len(rb)+1)
		cur[0] = i
		for j := 1; j <= len(rb); j++ {
			c := 1
			if ra[i-1] == rb[j-1] {
				c = 0
			}
			cur[j] = min(prev[j]+1, cur[j-1]+1, prev[j-1]+c)
		}
		prev = cur
	}
	return prev[len(rb)]
}

// osa is the optimal-string-alignment distance (a transposition counts as one edit).
func osa(a, b string) int {
	ra, rb := []rune(a), []rune(b)
	d := make([][]int, len(ra)+1)
	for i := range d {
		d[i] = make([]int, len(rb)+1)
		d[i][0] = i
	}
	for j := range d[0] {
		d[0][j] = j
	}
	for i := 1; i <= len(ra); i++ {
		for j := 1; j <= len(rb); j++ {
			c := 1
			if ra[i-1] == rb[j-1] {
				c = 0
			}
			d[i][j] = min(d[i-1][j]+1, d[i][j-1]+1, d[i-1][j-1]+c)
			if i > 1 && j > 1 && ra[i-1] == rb[j-2] && ra[i-2] == rb[j-1] {
				d[i][j] = min(d[i][j], d[i-2][j-2]+1)
			}
		}
	}
	return d[len(ra)][len(rb)]
}

func anyTerm(e *EvalDoc, field string, pred func(string) bool) bool {
	for _, t := range e.Toks[field] {
		if pred(t.Term) {
			return true
		}
	}
	return false
}

func phrase(e *EvalDoc, field string, terms []string) bool {
	if len(terms) == 0 {
		return false
	}
	for _, t0 := range e.Toks[field] {
		if t0.Term != terms[0] {
			continue
		}
		ok := true
		for i := 1; i < len(terms); i++ {
			found := false
			for _, t := range e.Toks[field] {
				if t.Elem == t0.Elem && t.Pos == t0.Pos+i && t.Term == terms[i] {
					found = true
				}
			}
			if !found {
				ok = false
				break
			}
		}
		if ok {
			return true
		}
	}
	return false
}

// Ctx collects side information of an evaluation.
type Ctx struct {
	FuzzyGap bool // some fuzzy leaf met a term within k Damerau edits but not within k Levenshtein edits
}

// Eval evaluates the documented meaning of q on one document.
func (q Q) Eval(e *EvalDoc, cx *Ctx) bool {
	switch q.T {
	case "term":
		return anyTerm(e, q.F, func(t string) bool { return t == q.S })
	case "match":
		toks := simpleTok(q.S)
		if isKw(q.F) {
			toks = []string{q.S}
		}
		if len(toks) == 0 {
			return false
		}
		cnt := 0
		for _, t := range toks {
			if anyTerm(e, q.F, func(x string) bool { return x == t }) {
				cnt++
			}
		}
		if q.And {
			return cnt == len(toks)
		}
		return cnt > 0
	case "phrase":
		return phrase(e, q.F, q.Terms)
	case "matchphrase":
		return phrase(e, q.F, simpleTok(q.S))
	case "prefix":
		return anyTerm(e, q.F, func(t string) bool { return strings.HasPrefix(t, q.S) })
	case "wildcard":
		re := "^"
		for _, r := range q.S {
			switch r {
			case '*':
				re += ".*"
			case '?':
				re += "."
			default:
				re += regexp.QuoteMeta(string(r))
			}
		}
		rx := regexp.MustCompile(re + "$")
		return anyTerm(e, q.F, rx.MatchString)
	case "regexp":
		rx := regexp.MustCompile("^(?:" + q.S + ")$")
		return anyTerm(e, q.F, rx.MatchString)
	case "fuzzy":
		return anyTerm(e, q.F, func(t string) bool {
			if len(t) < q.Pre || len(q.S) < q.Pre || t[:q.Pre] != q.S[:q.Pre] {
				return false
			}
			l, o := lev(q.S, t), osa(q.S, t)
			if o <= q.Fuzz && l > q.Fuzz && cx != nil {
				cx.FuzzyGap = true
			}
			return l <= q.Fuzz
		})
	case "termrange":
		imin, imax := true, false
		if q.IMin != nil {
			imin = *q.IMin
		}
		if q.IMax != nil {
			imax = *q.IMax
		}
		return anyTerm(e, q.F, func(t string) bool {
			if q.SMin != "" && (t < q.SMin || (t == q.SMin && !imin)) {
				return false
			}
			if q.SMax != "" && (t > q.SMax || (t == q.SMax && !imax)) {
				return false
			}
			return true
		})
	case "numrange":
		imin, imax := true, false
		if q.IMin != nil {
			imin = *q.IMin
		}
		if q.IMax != nil {
			imax = *q.IMax
		}
		lo, hi := math.Inf(-1), math.Inf(1)
		if q.Min != nil {
			lo = *q.Min
		}
		if q.Max != nil {
			hi = *q.Max
		}
		for _, x := range e.Nums[q.F] {
			if (x > lo || (x == lo && (imin || q.Min == nil))) && (x < hi || (x == hi && (imax || q.Max == nil))) {
				return true
			}
		}
		return false
	case "daterange":
		imin, imax := true, false
		if q.IMin != nil {
			imin = *q.IMin
		}
		if q.IMax != nil {
			imax = *q.IMax
		}
		var st, en time.Time
		if q.SMin != "" {
			st, _ = time.Parse(time.RFC3339, q.SMin)
		}
		if q.SMax != "" {
			en, _ = time.Parse(time.RFC3339, q.SMax)
		}
		for _, x := range e.Dates[q.F] {
			okLo := q.SMin == "" || x.After(st) || (x.Equal(st) && imin)
			okHi := q.SMax == "" || x.Before(en) || (x.Equal(en) && imax)
			if okLo && okHi {
				return true
			}
		}
		return false
	case "bool":
		for _, b := range e.Bools[q.F] {
			if b == q.B {
				return true
			}
		}
		return false
	case "docid":
		for _, x := range q.IDs {
			if x == e.ID {
				return true
			}
		}
		return false
	case "all":
		return true
	case "none":
		return false
	case "conj":
		if len(q.Sub) == 0 {
			return false
		}
		for _, c := range q.Sub {
			if !c.Eval(e, cx) {
				return false
			}
		}
		return true
	case "disj":
		cnt := 0
		for _, c := range q.Sub {
			if c.Eval(e, cx) {
				cnt++
			}
		}
		return cnt >= max(1, q.DMin)
	case "boolean":
		hasM := len(q.Must) > 0
		if !hasM && len(q.Shd) == 0 && len(q.Not) == 0 && len(q.Flt) == 0 {
			return false
		}
		for _, c := range q.Flt {
			if !c.Eval(e, cx) {
				return false
			}
		}
		for _, c := range q.Not {
			if c.Eval(e, cx) {
				return false
			}
		}
		shouldCnt := 0
		for _, c := range q.Shd {
			if c.Eval(e, cx) {
				shouldCnt++
			}
		}
		if hasM {
			for _, c := range q.Must {
				if !c.Eval(e, cx) {
					return false
				}
			}
			return shouldCnt >= q.DMin
		}
		if len(q.Shd) > 0 {
			return shouldCnt >= max(1, q.DMin)
		}
		return true
	}
	panic(fmt.Sprintf("qeval: unhandled query type %q", q.T))
}

func isKw(f string) bool {
	return f == "kw" || f == "tags" || f == "ver" || f == "items.color" || f == "items.parts.code" || f == "extras.kind"
}

// Bleve builds the bleve query.
func (q Q) Bleve() query.Query {
	switch q.T {
	case "term":
		r := bleve.NewTermQuery(q.S)
		r.SetField(q.F)
		return r
	case "match":
		r := bleve.NewMatchQuery(q.S)
		r.SetField(q.F)
		if q.And {
			r.SetOperator(query.MatchQueryOperatorAnd)
		}
		return r
	case "phrase":
		return bleve.NewPhraseQuery(q.Terms, q.F)
	case "matchphrase":
		r := bleve.NewMatchPhraseQuery(q.S)
		r.SetField(q.F)
		return r
	case "prefix":
		r := bleve.NewPrefixQuery(q.S)
		r.SetField(q.F)
		return r
	case "wildcard":
		r := bleve.NewWildcardQuery(q.S)
		r.SetField(q.F)
		return r
	case "regexp":
		r := bleve.NewRegexpQuery(q.S)
		r.SetField(q.F)
		return r
	case "fuzzy":
		r := bleve.NewFuzzyQuery(q.S)
		r.SetField(q.F)
		r.SetFuzziness(q.Fuzz)
		r.SetPrefix(q.Pre)
		return r
	case "termrange":
		r := bleve.NewTermRangeInclusiveQuery(q.SMin, q.SMax, q.IMin, q.IMax)
		r.SetField(q.F)
		return r
	case "numrange":
		r := bleve.NewNumericRangeInclusiveQuery(q.Min, q.Max, q.IMin, q.IMax)
		r.SetField(q.F)
		return r
	case "daterange":
		var st, en time.Time
		if q.SMin != "" {
			st, _ = time.Parse(time.RFC3339, q.SMin)
		}
		if q.SMax != "" {
			en, _ = time.Parse(time.RFC3339, q.SMax)
		}
		r := bleve.NewDateRangeInclusiveQuery(st, en, q.IMin, q.IMax)
		r.SetField(q.F)
		return r
	case "bool":
		r := bleve.NewBoolFieldQuery(q.B)
		r.SetField(q.F)
		return r
	case "docid":
		return bleve.NewDocIDQuery(q.IDs)
	case "all":
		return bleve.NewMatchAllQuery()
	case "none":
		return bleve.NewMatchNoneQuery()
	case "conj":
		var qs []query.Query
		for _, c := range q.Sub {
			qs = append(qs, c.Bleve())
		}
		return bleve.NewConjunctionQuery(qs...)
	case "disj":
		var qs []query.Query
		for _, c := range q.Sub {
			qs = append(qs, c.Bleve())
		}
		r := bleve.NewDisjunctionQuery(qs...)
		r.SetMin(float64(q.DMin))
		return r
	case "boolean":
		r := bleve.NewBooleanQuery()
		for _, c := range q.Must {
			r.AddMust(c.Bleve())
		}
		for _, c := range q.Shd {
			r.AddShould(c.Bleve())
		}
		for _, c := range q.Not {
			r.AddMustNot(c.Bleve())
		}
		if len(q.Shd) > 0 {
			r.SetMinShould(float64(q.DMin))
		}
		if len(q.Flt) > 0 {
			r.AddFilter(q.Flt[0].Bleve())
		}
		return r
	}
	panic(fmt.Sprintf("qeval: unhandled query type %q", q.T))
}

// HasMultiTerm reports whether the tree contains a term-expanding leaf (prefix, wildcard, regexp, fuzzy, ranges).
func (q Q) HasMultiTerm() bool {
	switch q.T {
	case "prefix", "wildcard", "regexp", "fuzzy", "termrange", "numrange", "daterange":
		return true
	}
	for _, l := range [][]Q{q.Sub, q.Must, q.Shd, q.Not, q.Flt} {
		for _, c := range l {
			if c.HasMultiTerm() {
				return true
			}
		}
	}
	return false
}

// HasFuzzy reports whether the tree contains a fuzzy leaf.
func (q Q) HasFuzzy() bool {
	if q.T == "fuzzy" {
		return true
	}
	for _, l := range [][]Q{q.Sub, q.Must, q.Shd, q.Not, q.Flt} {
		for _, c := range l {
			if c.HasFuzzy() {
				return true
			}
		}
	}
	return false
}

func (q Q) String() string {
	switch q.T {
	case "conj", "disj":
		var ps []string
		for _, c := range q.Sub {
			ps = append(ps, c.String())
		}
		if q.T == "disj" {
			return fmt.Sprintf("disj[min=%d](%s)", q.DMin, strings.Join(ps, ", "))
		}
		return "conj(" + strings.Join(ps, ", ") + ")"
	case "boolean":
		f := func(l []Q) string {
			var ps []string
			for _, c := range l {
				ps = append(ps, c.String())
			}
			return strings.Join(ps, ", ")
		}
		if len(q.Flt) > 0 {
			return fmt.Sprintf("boolean{must:[%s] should[min=%d]:[%s] must_not:[%s] filter:[%s]}", f(q.Must), q.DMin, f(q.Shd), f(q.Not), f(q.Flt))
		}
		return fmt.Sprintf("boolean{must:[%s] should[min=%d]:[%s] must_not:[%s]}", f(q.Must), q.DMin, f(q.Shd), f(q.Not))
	case "phrase":
		return fmt.Sprintf("phrase(%s:%v)", q.F, q.Terms)
	case "docid":
		return fmt.Sprintf("docid%v", q.IDs)
	case "numrange":
		s := "numrange(" + q.F + ":"
		if q.Min != nil {
			s += fmt.Sprint(*q.Min)
		}
		s += ".."
		if q.Max != nil {
			s += fmt.Sprint(*q.Max)
		}
		return s + incl(q) + ")"
	case "termrange", "daterange":
		return fmt.Sprintf("%s(%s:%s..%s%s)", q.T, q.F, q.SMin, q.SMax, incl(q))
	case "fuzzy":
		return fmt.Sprintf("fuzzy(%s:%s~%d/%d)", q.F, q.S, q.Fuzz, q.Pre)
	case "bool":
		return fmt.Sprintf("bool(%s:%v)", q.F, q.B)
	case "match":
		return fmt.Sprintf("match(%s:%q and=%v)", q.F, q.S, q.And)
	}
	return fmt.Sprintf("%s(%s:%s)", q.T, q.F, q.S)
}

func incl(q Q) string {
	s := ""
	if q.IMin != nil {
		s += fmt.Sprintf(" imin=%v", *q.IMin)
	}
	if q.IMax != nil {
		s += fmt.Sprintf(" imax=%v", *q.IMax)
	}
	return s
}
