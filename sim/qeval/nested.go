package qeval

import (
	"strings"

	"bsim/model"
)

func isItemField(f string) bool { return strings.HasPrefix(f, "items.") }

// onlyItemFields reports whether every leaf of the tree addresses a field of the nested array.
func (q Q) onlyItemFields() bool {
	kids := 0
	for _, l := range [][]Q{q.Sub, q.Must, q.Shd, q.Not} {
		for _, c := range l {
			kids++
			if !c.onlyItemFields() {
				return false
			}
		}
	}
	if kids == 0 {
		return isItemField(q.F)
	}
	return true
}

// nestedPure reports whether q is a conjunction whose conjuncts all address (only) fields of the nested array: one
// array element has to satisfy all of them.
func (q Q) nestedPure() bool {
	return q.T == "conj" && len(q.Sub) > 0 && q.onlyItemFields()
}

// EvalNested evaluates q on a document whose "items" array is mapped as nested: a conjunction whose conjuncts all
// address fields of the array needs ONE element satisfying all of them; everything else combines per parent.
func (q Q) EvalNested(e *EvalDoc, cx *Ctx) bool {
	switch q.T {
	case "conj":
		if q.nestedPure() {
			for _, it := range e.Items {
				all := true
				for _, c := range q.Sub {
					if !c.Eval(it, cx) {
						all = false
						break
					}
				}
				if all {
					return true
				}
			}
			return false
		}
		if len(q.Sub) == 0 {
			return false
		}
		for _, c := range q.Sub {
			if !c.EvalNested(e, cx) {
				return false
			}
		}
		return true
	case "disj":
		cnt := 0
		for _, c := range q.Sub {
			if c.EvalNested(e, cx) {
				cnt++
			}
		}
		return cnt >= max(1, q.DMin)
	case "boolean":
		hasM := len(q.Must) > 0
		if !hasM && len(q.Shd) == 0 && len(q.Not) == 0 {
			return false
		}
		for _, c := range q.Not {
			if c.EvalNested(e, cx) {
				return false
			}
		}
		shouldCnt := 0
		for _, c := range q.Shd {
			if c.EvalNested(e, cx) {
				shouldCnt++
			}
		}
		if hasM {
			for _, c := range q.Must {
				if !c.EvalNested(e, cx) {
					return false
				}
			}
			return shouldCnt >= q.DMin
		}
		if len(q.Shd) > 0 {
			return shouldCnt >= max(1, q.DMin)
		}
		return true
	}
	return q.Eval(e, cx)
}

func genItemLeaf(r R) Q {
	switch r.Intn(4) {
	case 0, 1:
		return Q{T: "term", F: "items.color", S: pick(r, model.Kws)}
	case 2:
		q := Q{T: "numrange", F: "items.size"}
		lo := float64(r.Intn(4))
		q.Min = fp(lo)
		q.Max = fp(lo + float64(1+r.Intn(2)))
		q.IMin, q.IMax = bp(true), bp(r.Intn(2) == 0)
		return q
	default:
		return Q{T: "term", F: "items.note", S: pick(r, model.Vocab)}
	}
}

func genTopLeaf(r R, ids []string) Q {
	switch r.Intn(5) {
	case 0:
		return Q{T: "term", F: "kw", S: pick(r, model.Kws)}
	case 1:
		return Q{T: "term", F: "body", S: pick(r, model.Vocab)}
	case 2:
		return Q{T: "numrange", F: "num", Min: fp(float64(r.Intn(6) - 3)), Max: fp(float64(3 + r.Intn(6)))}
	case 3:
		return Q{T: "term", F: "tags", S: pick(r, model.TagVals)}
	default:
		return Q{T: "all"}
	}
}

func genNestedConj(r R) Q {
	n := 2 + r.Intn(2)
	q := Q{T: "conj"}
	for i := 0; i < n; i++ {
		q.Sub = append(q.Sub, genItemLeaf(r))
	}
	return q
}

// GenNested draws queries over the nested array and top-level fields for C20.
func GenNested(r R, depth int, ids []string) Q {
	atom := func() Q {
		switch r.Intn(5) {
		case 0, 1:
			return genNestedConj(r)
		case 2:
			return genItemLeaf(r)
		default:
			return genTopLeaf(r, ids)
		}
	}
	if depth <= 0 || r.Intn(4) == 0 {
		return atom()
	}
	sub := func() Q {
		if depth > 1 && r.Intn(3) == 0 {
			return GenNested(r, depth-1, ids)
		}
		return atom()
	}
	subs := func(lo, hi int) []Q {
		n := lo + r.Intn(hi-lo+1)
		var out []Q
		for i := 0; i < n; i++ {
			out = append(out, sub())
		}
		return out
	}
	switch r.Intn(3) {
	case 0:
		q := Q{T: "conj", Sub: subs(2, 3)}
		if q.nestedPure() {
			q.Sub = append(q.Sub, genTopLeaf(r, ids))
		}
		return q
	case 1:
		s := subs(1, 3)
		return Q{T: "disj", Sub: s, DMin: r.Intn(len(s) + 1)}
	default:
		q := Q{T: "boolean"}
		if r.Intn(3) != 0 {
			q.Must = subs(1, 2)
		}
		if r.Intn(2) == 0 {
			q.Shd = subs(1, 2)
			q.DMin = r.Intn(len(q.Shd) + 1)
		}
		if r.Intn(3) == 0 || (len(q.Must) == 0 && len(q.Shd) == 0) {
			q.Not = subs(1, 2)
		}
		return q
	}
}

// HasItemField reports whether the tree has a leaf on a field of the nested array.
func (q Q) HasItemField() bool {
	if isItemField(q.F) {
		return true
	}
	for _, l := range [][]Q{q.Sub, q.Must, q.Shd, q.Not} {
		for _, c := range l {
			if c.HasItemField() {
				return true
			}
		}
	}
	return false
}

func (q Q) anyNode(pred func(Q) bool) bool {
	if pred(q) {
		return true
	}
	for _, l := range [][]Q{q.Sub, q.Must, q.Shd, q.Not} {
		for _, c := range l {
			if c.anyNode(pred) {
				return true
			}
		}
	}
	return false
}

// NestedShape names the first query shape (in a fixed order) whose composition over a nested array bleve is known
// not to evaluate per parent document; "" when the tree has none of them.
func (q Q) NestedShape() string {
	// a must_not whose positive side (explicit, or the implied match-all) also matches nested sub-documents
	if q.anyNode(func(n Q) bool {
		if n.T != "boolean" || len(n.Not) == 0 {
			return false
		}
		if len(n.Must) == 0 && len(n.Shd) == 0 {
			return true
		}
		pos := Q{T: "conj", Sub: append(append([]Q(nil), n.Must...), n.Shd...)}
		return pos.anyNode(func(m Q) bool { return m.T == "all" || isItemField(m.F) })
	}) {
		return "boolean-must-not-beside-nested-docs"
	}
	if q.anyNode(func(n Q) bool { return n.T == "boolean" && n.HasItemField() }) {
		return "boolean-over-nested-field"
	}
	if q.anyNode(func(n Q) bool { return n.T == "disj" && n.DMin >= 2 && n.HasItemField() }) {
		return "disjunction-min2-over-nested-field"
	}
	return ""
}
