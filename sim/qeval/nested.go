package qeval

import (
	"strings"

	"bsim/model"
)

// arrayPath is the chain of nested arrays a field lives in: "kw" -> [], "items.color" -> [items],
// "items.parts.code" -> [items parts], "extras.kind" -> [extras].
func arrayPath(field string) []string {
	switch {
	case strings.HasPrefix(field, "items.parts."):
		return []string{"items", "parts"}
	case strings.HasPrefix(field, "items."):
		return []string{"items"}
	case strings.HasPrefix(field, "extras."):
		return []string{"extras"}
	}
	return nil
}

func isItemField(f string) bool { return len(arrayPath(f)) > 0 }

func (q Q) children() []Q {
	var out []Q
	out = append(out, q.Sub...)
	out = append(out, q.Must...)
	out = append(out, q.Shd...)
	out = append(out, q.Not...)
	out = append(out, q.Flt...)
	return out
}

// commonPath is the longest array path shared by every leaf of the tree; ok is false when some leaf addresses no
// field at all (match-all, match-none, doc ids), which pins the tree to the parent document.
func (q Q) commonPath() (path []string, ok bool) {
	kids := q.children()
	if len(kids) == 0 {
		if q.F == "" {
			return nil, false
		}
		return arrayPath(q.F), true
	}
	first := true
	for _, c := range kids {
		p, cok := c.commonPath()
		if !cok {
			return nil, false
		}
		if first {
			path, first = p, false
			continue
		}
		n := 0
		for n < len(path) && n < len(p) && path[n] == p[n] {
			n++
		}
		path = path[:n]
	}
	return path, true
}

// descend calls f on every node reached from n by following the array names in rel (existentially).
func descend(n *EvalDoc, rel []string, f func(*EvalDoc) bool) bool {
	if len(rel) == 0 {
		return f(n)
	}
	for _, k := range n.Kids[rel[0]] {
		if descend(k, rel[1:], f) {
			return true
		}
	}
	return false
}

// evalAt evaluates q inside the context node n, which sits at array path at. A conjunction needs ONE node at the
// deepest array path common to all its leaves that satisfies every conjunct; every other composition, and every
// leaf, is existential below n.
func (q Q) evalAt(n *EvalDoc, at []string, root bool, cx *Ctx) bool {
	switch q.T {
	case "conj":
		if len(q.Sub) == 0 {
			return false
		}
		cp, ok := q.commonPath()
		if !ok || len(cp) < len(at) {
			cp = at
		}
		return descend(n, cp[len(at):], func(m *EvalDoc) bool {
			for _, c := range q.Sub {
				if !c.evalAt(m, cp, root && len(cp) == 0, cx) {
					return false
				}
			}
			return true
		})
	case "disj":
		cnt := 0
		for _, c := range q.Sub {
			if c.evalAt(n, at, root, cx) {
				cnt++
			}
		}
		return cnt >= max(1, q.DMin)
	case "boolean":
		hasM := len(q.Must) > 0
		if !hasM && len(q.Shd) == 0 && len(q.Not) == 0 && len(q.Flt) == 0 {
			return false
		}
		for _, c := range q.Flt {
			if !c.evalAt(n, at, root, cx) {
				return false
			}
		}
		for _, c := range q.Not {
			if c.evalAt(n, at, root, cx) {
				return false
			}
		}
		shouldCnt := 0
		for _, c := range q.Shd {
			if c.evalAt(n, at, root, cx) {
				shouldCnt++
			}
		}
		if hasM {
			for _, c := range q.Must {
				if !c.evalAt(n, at, root, cx) {
					return false
				}
			}
			return shouldCnt >= q.DMin
		}
		if len(q.Shd) > 0 {
			return shouldCnt >= max(1, q.DMin)
		}
		return true
	}
	// a leaf: some node below n at the leaf's own array path satisfies it. At the root the flattened view of the
	// parent document answers the same question directly.
	if root {
		return q.Eval(n, cx)
	}
	lp := arrayPath(q.F)
	if len(lp) < len(at) {
		return false // a leaf outside this context (cannot happen for the common path of a conjunction)
	}
	return descend(n, lp[len(at):], func(m *EvalDoc) bool { return q.Eval(m, cx) })
}

// EvalNested evaluates q on a document whose arrays of objects are mapped as nested.
func (q Q) EvalNested(e *EvalDoc, cx *Ctx) bool { return q.evalAt(e, nil, true, cx) }

func genItemLeaf(r R) Q {
	switch r.Intn(6) {
	case 0, 1:
		return Q{T: "term", F: "items.color", S: pick(r, model.Kws)}
	case 2:
		q := Q{T: "numrange", F: "items.size"}
		lo := float64(r.Intn(4))
		q.Min = fp(lo)
		q.Max = fp(lo + float64(1+r.Intn(2)))
		q.IMin, q.IMax = bp(true), bp(r.Intn(2) == 0)
		return q
	case 3:
		return Q{T: "term", F: "items.note", S: pick(r, model.Vocab)}
	default:
		return Q{T: "term", F: "items.parts.code", S: pick(r, model.Codes)}
	}
}

func genTopLeaf(r R, ids []string) Q {
	switch r.Intn(7) {
	case 0:
		return Q{T: "term", F: "kw", S: pick(r, model.Kws)}
	case 1:
		return Q{T: "term", F: "body", S: pick(r, model.Vocab)}
	case 2:
		return Q{T: "numrange", F: "num", Min: fp(float64(r.Intn(6) - 3)), Max: fp(float64(3 + r.Intn(6)))}
	case 3:
		return Q{T: "term", F: "tags", S: pick(r, model.TagVals)}
	case 4, 5:
		return Q{T: "term", F: "extras.kind", S: pick(r, model.Kinds)} // a sibling array
	default:
		return Q{T: "all"}
	}
}

func genNestedConj(r R) Q {
	n := 2 + r.Intn(2)
	q := Q{T: "conj"}
	for i := 0; i < n; i++ {
		q.Sub = append(q.Sub, genItemLeaf(r))
	}
	return q
}

// GenNested draws queries over the nested arrays and top-level fields for C20.
func GenNested(r R, depth int, ids []string) Q {
	atom := func() Q {
		switch r.Intn(5) {
		case 0, 1:
			return genNestedConj(r)
		case 2:
			return genItemLeaf(r)
		default:
			return genTopLeaf(r, ids)
		}
	}
	if depth <= 0 || r.Intn(4) == 0 {
		return atom()
	}
	sub := func() Q {
		if depth > 1 && r.Intn(3) == 0 {
			return GenNested(r, depth-1, ids)
		}
		return atom()
	}
	subs := func(lo, hi int) []Q {
		n := lo + r.Intn(hi-lo+1)
		var out []Q
		for i := 0; i < n; i++ {
			out = append(out, sub())
		}
		return out
	}
	switch r.Intn(6) {
	case 0, 1, 2:
		return Q{T: "conj", Sub: subs(2, 3)}
	case 3, 4:
		s := subs(1, 3)
		return Q{T: "disj", Sub: s, DMin: r.Intn(len(s) + 1)}
	default:
		q := Q{T: "boolean"}
		if r.Intn(3) != 0 {
			q.Must = subs(1, 2)
		}
		if r.Intn(2) == 0 {
			q.Shd = subs(1, 2)
			q.DMin = r.Intn(len(q.Shd) + 1)
		}
		if r.Intn(3) == 0 || (len(q.Must) == 0 && len(q.Shd) == 0) {
			q.Not = subs(1, 2)
		}
		return q
	}
}

// HasItemField reports whether the tree has a leaf on a field of a nested array.
func (q Q) HasItemField() bool {
	if isItemField(q.F) {
		return true
	}
	for _, c := range q.children() {
		if c.HasItemField() {
			return true
		}
	}
	return false
}

func (q Q) anyNode(pred func(Q) bool) bool {
	if pred(q) {
		return true
	}
	for _, c := range q.children() {
		if c.anyNode(pred) {
			return true
		}
	}
	return false
}

// NestedShape names the first query shape (in a fixed order) whose composition over a nested array bleve is known
// not to evaluate per parent document; "" when the tree has none of them.
func (q Q) NestedShape() string {
	// a must_not whose positive side (explicit, or the implied match-all) also matches nested sub-documents
	if q.anyNode(func(n Q) bool {
		if n.T != "boolean" || len(n.Not) == 0 {
			return false
		}
		if len(n.Must) == 0 && len(n.Shd) == 0 {
			return true
		}
		pos := Q{T: "conj", Sub: append(append([]Q(nil), n.Must...), n.Shd...)}
		return pos.anyNode(func(m Q) bool { return m.T == "all" || isItemField(m.F) })
	}) {
		return "boolean-must-not-beside-nested-docs"
	}
	if q.anyNode(func(n Q) bool { return n.T == "boolean" && n.HasItemField() }) {
		return "boolean-over-nested-field"
	}
	if q.anyNode(func(n Q) bool { return n.T == "disj" && n.DMin >= 2 && n.HasItemField() }) {
		return "disjunction-min2-over-nested-field"
	}
	return ""
}
