package qeval

import (
	"strings"

	"bsim/model"
)

// R is the random source used by generators.
type R interface{ Intn(int) int }

func pick(r R, xs []string) string { return xs[r.Intn(len(xs))] }

func fp(f float64) *float64 { return &f }
func bp(b bool) *bool       { return &b }

var textFields = []string{"body", "body", "titles"}
var kwFields = []string{"kw", "tags"}

var wildcards = []string{"ca*", "c?t", "*ar", "d?g", "*a*", "ca??", "b*r", "?a?", "*t", "art"}
var regexps = []string{"ca.*", "c.t", "(cat|dog)", "d[io]g", "[a-c]a[rt]", "ba.", ".*rt", "t.b", "c(a|o)t?", "ca(r|b)t?"}
var prefixes = []string{"c", "ca", "car", "d", "do", "a", "b", "ba", "t", "x"}

func textField(r R, rich bool) string {
	f := pick(r, textFields)
	if f == "titles" && !rich {
		f = "body"
	}
	return f
}

// GenLeaf draws a leaf query.
func GenLeaf(r R, ids []string, rich bool) Q {
	switch r.Intn(17) {
	case 0, 1:
		if r.Intn(3) == 0 {
			return Q{T: "term", F: pick(r, kwFields), S: pick(r, append(append([]string(nil), model.Kws...), model.TagVals...))}
		}
		return Q{T: "term", F: textField(r, rich), S: pick(r, model.Vocab)}
	case 2, 3:
		n := 1 + r.Intn(3)
		var ws []string
		for i := 0; i < n; i++ {
			ws = append(ws, pick(r, model.Vocab))
		}
		if r.Intn(6) == 0 {
			return Q{T: "match", F: "kw", S: pick(r, model.Kws)}
		}
		return Q{T: "match", F: textField(r, rich), S: strings.Join(ws, " "), And: r.Intn(2) == 0}
	case 4:
		n := 1 + r.Intn(3)
		var ws []string
		for i := 0; i < n; i++ {
			ws = append(ws, pick(r, model.Vocab))
		}
		return Q{T: "phrase", F: textField(r, rich), Terms: ws}
	case 5:
		n := 1 + r.Intn(3)
		var ws []string
		for i := 0; i < n; i++ {
			ws = append(ws, pick(r, model.Vocab))
		}
		return Q{T: "matchphrase", F: textField(r, rich), S: strings.Join(ws, " ")}
	case 6:
		return Q{T: "prefix", F: textField(r, rich), S: pick(r, prefixes)}
	case 7:
		return Q{T: "wildcard", F: textField(r, rich), S: pick(r, wildcards)}
	case 8:
		return Q{T: "regexp", F: textField(r, rich), S: pick(r, regexps)}
	case 9:
		w := pick(r, model.Vocab)
		return Q{T: "fuzzy", F: textField(r, rich), S: w, Fuzz: r.Intn(3), Pre: r.Intn(min(3, len(w)) + 1)}
	case 10:
		q := Q{T: "termrange", F: textField(r, rich)}
		if r.Intn(4) != 0 {
			q.SMin = pick(r, model.Vocab)
		}
		if r.Intn(4) != 0 || q.SMin == "" {
			q.SMax = pick(r, model.Vocab)
		}
		if r.Intn(2) == 0 {
			q.IMin = bp(r.Intn(2) == 0)
		}
		if r.Intn(2) == 0 {
			q.IMax = bp(r.Intn(2) == 0)
		}
		return q
	case 11, 12:
		q := Q{T: "numrange", F: "num"}
		if r.Intn(4) != 0 {
			q.Min = fp(float64(r.Intn(14)-4) + []float64{0, 0, 0.5}[r.Intn(3)])
		}
		if r.Intn(4) != 0 || q.Min == nil {
			q.Max = fp(float64(r.Intn(14)-4) + []float64{0, 0, 0.5}[r.Intn(3)])
		}
		if r.Intn(2) == 0 {
			q.IMin = bp(r.Intn(2) == 0)
		}
		if r.Intn(2) == 0 {
			q.IMax = bp(r.Intn(2) == 0)
		}
		return q
	case 13:
		q := Q{T: "daterange", F: "date"}
		if r.Intn(4) != 0 {
			q.SMin = pick(r, model.Dates)
		}
		if r.Intn(4) != 0 || q.SMin == "" {
			q.SMax = pick(r, model.Dates)
		}
		if r.Intn(2) == 0 {
			q.IMin = bp(r.Intn(2) == 0)
		}
		if r.Intn(2) == 0 {
			q.IMax = bp(r.Intn(2) == 0)
		}
		return q
	case 14:
		return Q{T: "bool", F: "flag", B: r.Intn(2) == 0}
	case 15:
		n := 1 + r.Intn(3)
		var xs []string
		for i := 0; i < n; i++ {
			xs = append(xs, pick(r, ids))
		}
		if r.Intn(4) == 0 {
			xs = append(xs, "no-such-id")
		}
		return Q{T: "docid", IDs: xs}
	default:
		if r.Intn(3) == 0 {
			return Q{T: "none"}
		}
		return Q{T: "all"}
	}
}

// Gen draws a query tree of at most the given depth.
func Gen(r R, depth int, ids []string, rich bool) Q {
	if depth <= 0 || r.Intn(3) == 0 {
		return GenLeaf(r, ids, rich)
	}
	subs := func(lo, hi int) []Q {
		n := lo + r.Intn(hi-lo+1)
		var out []Q
		for i := 0; i < n; i++ {
			out = append(out, Gen(r, depth-1, ids, rich))
		}
		return out
	}
	switch r.Intn(3) {
	case 0:
		return Q{T: "conj", Sub: subs(1, 3)}
	case 1:
		s := subs(1, 4)
		return Q{T: "disj", Sub: s, DMin: r.Intn(len(s) + 1)}
	default:
		q := Q{T: "boolean"}
		if r.Intn(3) != 0 {
			q.Must = subs(1, 2)
		}
		if r.Intn(3) != 0 {
			q.Shd = subs(1, 3)
			q.DMin = r.Intn(len(q.Shd) + 1)
		}
		if r.Intn(3) == 0 {
			q.Not = subs(1, 2)
		}
		if r.Intn(3) == 0 {
			q.Flt = subs(1, 1)
		}
		return q
	}
}
