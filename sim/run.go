// Package bsim is the entry point of the deterministic simulator for blevesearch/bleve.
package bsim

import (
	"fmt"
	"os"
	"runtime"
	"strings"
	"testing"
	"testing/synctest"
	"time"

	"bsim/core"
	_ "bsim/scen"
	"bsim/sched"
)

func tmpRoot() string {
	if d := os.Getenv("BSIM_TMP"); d != "" {
		return d
	}
	return "/dev/shm"
}

// OnBusyLoop is called by the watchdog with the result of a run in which a task of the library spins for ever; it has
// to write the result and end the process (the spinning goroutine cannot be stopped).
var OnBusyLoop func(*core.Result)

type spin struct{ gid, fn, stack string }

// spinning finds a goroutine of the current bubble that is running or runnable inside the library.
func spinning() spin {
	buf := make([]byte, 4<<20)
	buf = buf[:runtime.Stack(buf, true)]
	for _, g := range strings.Split(string(buf), "\n\n") {
		lines := strings.Split(g, "\n")
		if len(lines) < 2 || !strings.Contains(lines[0], "synctest bubble") {
			continue
		}
		if !strings.Contains(lines[0], "[running") && !strings.Contains(lines[0], "[runnable") {
			continue
		}
		for _, l := range lines[1:] {
			if strings.HasPrefix(l, "github.com/blevesearch/") || strings.HasPrefix(l, "github.com/couchbase/") {
				fn := l
				if i := strings.LastIndex(fn, "("); i > 0 {
					fn = fn[:i]
				}
				if len(lines) > 24 {
					lines = lines[:24]
				}
				return spin{gid: strings.Fields(lines[0])[1], fn: fn, stack: strings.Join(lines, "\n")}
			}
		}
	}
	return spin{}
}

// RunSpec executes one simulated run in its own synctest bubble.
func RunSpec(t *testing.T, spec core.Spec, keepLog bool) *core.Result {
	res := &core.Result{Spec: spec}
	if res.Spec.Scenario == "" {
		res.Spec.Scenario = core.PropertyScenario[spec.Property]
	}
	sc := core.Scenarios[res.Spec.Scenario]
	if sc == nil {
		res.Harness = "unknown scenario " + res.Spec.Scenario
		return res
	}
	dir, err := os.MkdirTemp(tmpRoot(), "bsim-run-")
	if err != nil {
		res.Harness = err.Error()
		return res
	}
	defer os.RemoveAll(dir)
	var tape *sched.Tape
	if spec.Replay {
		tape = sched.ReplayTape(spec.Tape)
	} else {
		tape = sched.NewTape(spec.Seed)
	}
	ctx := &core.Ctx{Spec: &res.Spec, Gen: sched.NewRand(spec.Seed), Tape: tape, Dir: dir, Res: res, Quick: spec.Tier != "thorough"}
	t0 := time.Now()
	done := make(chan struct{})
	go func() { // wall-clock watchdog, outside the bubble
		limit := 180 * time.Second
		// a task of the code under test that spins without ever reaching a yield point (an endless loop) keeps the
		// whole bubble from settling. Three stack samples over 30 s (at 60, 75 and 90 s) that show the same goroutine running in the same
		// function of the library, with no scheduling step in between, are reported as what they are: a call that
		// does not return (C11: no deadlocks, calls complete). Anything else that exceeds the limit is trouble of
		// the machinery and exits 3.
		report := func(a, b spin, progress int64) {
			if a.gid != "" && a.gid == b.gid && a.fn == b.fn && sched.Progress.Load() == progress && OnBusyLoop != nil {
				res.Violations = append(res.Violations, core.Violation{Property: "C11", Clause: "call-never-returns", Sig: map[string]string{"in": b.fn},
					Detail: fmt.Sprintf("a task has been running inside %s for tens of seconds of wall-clock time without reaching a synchronisation point and without any scheduling step (run of property %s): an endless loop\n%s", b.fn, spec.Property, b.stack)})
				res.Spec.Tape = tape.Rec
				res.WallMS = time.Since(t0).Milliseconds()
				_ = os.RemoveAll(dir)
				OnBusyLoop(res)
			}
		}
		var first spin
		var progress int64
		var ms runtime.MemStats
		for tick := 1; ; tick++ {
			select {
			case <-done:
				return
			case <-time.After(5 * time.Second):
			}
			runtime.ReadMemStats(&ms)
			if ms.HeapAlloc > 8<<30 { // an endless loop that allocates: decide now, before the machine suffers
				a, p := spinning(), sched.Progress.Load()
				time.Sleep(3 * time.Second)
				report(a, spinning(), p)
				fmt.Fprintf(os.Stderr, "bsim: WATCHDOG: run property=%s seed=%d holds %d MiB of heap\n", spec.Property, spec.Seed, ms.HeapAlloc>>20)
				os.Exit(3)
			}
			switch tick {
			case 12: // 60 s
				first, progress = spinning(), sched.Progress.Load()
			case 15: // 75 s: a third sample in the middle makes a coincidence of two even less likely
				if mid := spinning(); mid.gid != first.gid || mid.fn != first.fn {
					first = spin{}
				}
			case 18: // 90 s
				report(first, spinning(), progress)
			case 36: // 180 s
				buf := make([]byte, 4<<20)
				buf = buf[:runtime.Stack(buf, true)]
				fmt.Fprintf(os.Stderr, "bsim: WATCHDOG: run property=%s seed=%d exceeded %v wall clock\n%s\n", spec.Property, spec.Seed, limit, buf)
				os.Exit(3)
			}
		}
	}()
	func() {
		defer func() {
			if r := recover(); r != nil {
				msg := fmt.Sprint(r)
				if strings.Contains(msg, "deadlock") && ctx.TolerateLeak {
					// expected, see core.Ctx.TolerateLeak
				} else if strings.Contains(msg, "deadlock") && res.Harness == "" {
					res.Harness = "goroutines left blocked at the end of the bubble: " + msg
					if os.Getenv("BSIM_DUMP") != "" {
						buf := make([]byte, 1<<20)
						fmt.Fprintf(os.Stderr, "%s\n", buf[:runtime.Stack(buf, true)])
					}
				} else if res.Harness == "" {
					res.Harness = "panic outside tasks: " + msg
				}
			}
		}()
		synctest.Test(t, func(t *testing.T) {
			defer func() {
				if r := recover(); r != nil {
					buf := make([]byte, 16<<10)
					buf = buf[:runtime.Stack(buf, false)]
					res.Harness = fmt.Sprintf("panic in scenario: %v\n%s", r, buf)
				}
			}()
			sc(ctx)
		})
	}()
	for _, f := range ctx.After {
		f()
	}
	close(done)
	res.WallMS = time.Since(t0).Milliseconds()
	res.Spec.Tape = tape.Rec
	if len(res.Log) > 60 {
		res.LogHead = res.Log[:60]
	} else {
		res.LogHead = res.Log
	}
	if !keepLog {
		res.Log = nil
	}
	return res
}
