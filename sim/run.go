// Package bsim is the entry point of the deterministic simulator for blevesearch/bleve.
package bsim

import (
	"fmt"
	"os"
	"runtime"
	"strings"
	"testing"
	"testing/synctest"
	"time"

	"bsim/core"
	_ "bsim/scen"
	"bsim/sched"
)

func tmpRoot() string {
	if d := os.Getenv("BSIM_TMP"); d != "" {
		return d
	}
	return "/dev/shm"
}

// RunSpec executes one simulated run in its own synctest bubble.
func RunSpec(t *testing.T, spec core.Spec, keepLog bool) *core.Result {
	res := &core.Result{Spec: spec}
	if res.Spec.Scenario == "" {
		res.Spec.Scenario = core.PropertyScenario[spec.Property]
	}
	sc := core.Scenarios[res.Spec.Scenario]
	if sc == nil {
		res.Harness = "unknown scenario " + res.Spec.Scenario
		return res
	}
	dir, err := os.MkdirTemp(tmpRoot(), "bsim-run-")
	if err != nil {
		res.Harness = err.Error()
		return res
	}
	defer os.RemoveAll(dir)
	var tape *sched.Tape
	if spec.Replay {
		tape = sched.ReplayTape(spec.Tape)
	} else {
		tape = sched.NewTape(spec.Seed)
	}
	ctx := &core.Ctx{Spec: &res.Spec, Gen: sched.NewRand(spec.Seed), Tape: tape, Dir: dir, Res: res, Quick: spec.Tier != "thorough"}
	t0 := time.Now()
	done := make(chan struct{})
	go func() { // wall-clock watchdog, outside the bubble
		limit := 180 * time.Second
		select {
		case <-done:
		case <-time.After(limit):
			buf := make([]byte, 4<<20)
			buf = buf[:runtime.Stack(buf, true)]
			fmt.Fprintf(os.Stderr, "bsim: WATCHDOG: run property=%s seed=%d exceeded %v wall clock\n%s\n", spec.Property, spec.Seed, limit, buf)
			os.Exit(3)
		}
	}()
	func() {
		defer func() {
			if r := recover(); r != nil {
				msg := fmt.Sprint(r)
				if strings.Contains(msg, "deadlock") && ctx.TolerateLeak {
					// expected, see core.Ctx.TolerateLeak
				} else if strings.Contains(msg, "deadlock") && res.Harness == "" {
					res.Harness = "goroutines left blocked at the end of the bubble: " + msg
					if os.Getenv("BSIM_DUMP") != "" {
						buf := make([]byte, 1<<20)
						fmt.Fprintf(os.Stderr, "%s\n", buf[:runtime.Stack(buf, true)])
					}
				} else if res.Harness == "" {
					res.Harness = "panic outside tasks: " + msg
				}
			}
		}()
		synctest.Test(t, func(t *testing.T) {
			defer func() {
				if r := recover(); r != nil {
					buf := make([]byte, 16<<10)
					buf = buf[:runtime.Stack(buf, false)]
					res.Harness = fmt.Sprintf("panic in scenario: %v\n%s", r, buf)
				}
			}()
			sc(ctx)
		})
	}()
	for _, f := range ctx.After {
		f()
	}
	close(done)
	res.WallMS = time.Since(t0).Milliseconds()
	res.Spec.Tape = tape.Rec
	if len(res.Log) > 60 {
		res.LogHead = res.Log[:60]
	} else {
		res.LogHead = res.Log
	}
	if !keepLog {
		res.Log = nil
	}
	return res
}
