package bsim

import (
	"encoding/json"
	"fmt"
	"os"
	"testing"

	"bsim/core"
	"bsim/model"
	"bsim/scen"

	"github.com/blevesearch/bleve/v2"
)

// TestPlainHistory is a debugging aid: it replays the write operations of a hist replay file on a plain
// index (no scheduler, real goroutines) and runs every query of the workload several times.
func TestPlainHistory(t *testing.T) {
	if *fReplay == "" {
		t.Skip("no -bsim.replay")
	}
	b, err := os.ReadFile(*fReplay)
	if err != nil {
		t.Fatal(err)
	}
	var spec core.Spec
	if err := json.Unmarshal(b, &spec); err != nil {
		t.Fatal(err)
	}
	var cfg scen.HistCfg
	var wl scen.HistWL
	json.Unmarshal(spec.Config, &cfg)
	json.Unmarshal(spec.Workload, &wl)
	for _, ic := range []model.IndexCfg{cfg.A, cfg.B} {
		dir := t.TempDir()
		idx, err := ic.Create(dir+"/i", model.Mapping(cfg.Nested))
		if err != nil {
			t.Fatal(err)
		}
		for i, op := range wl.Ops {
			switch op.K {
			case "index":
				idx.Index(op.ID, model.MakeDoc(op.ID, op.Ver, cfg.Rich).Input())
			case "delete":
				idx.Delete(op.ID)
			case "batch":
				if op.Batch != nil {
					bb, _ := scen.BuildBatch(idx, *op.Batch, cfg.Rich)
					idx.Batch(bb)
				}
			case "query":
				var outs []string
				for rep := 0; rep < 4; rep++ {
					req := bleve.NewSearchRequestOptions(op.Q.Bleve(), 100, 0, false)
					res, err := idx.Search(req)
					if err != nil {
						t.Fatal(err)
					}
					var ids []string
					for _, h := range res.Hits {
						ids = append(ids, h.ID)
					}
					outs = append(outs, fmt.Sprint(res.Total, ids))
				}
				for _, o := range outs[1:] {
					if o != outs[0] {
						fmt.Printf("op %d: REPEATED QUERY DIFFERS on %s: %s\n  %v\n", i, ic.Engine, op.Q, outs)
						break
					}
				}
			}
		}
		idx.Close()
	}
}
