package bsim

import (
	"context"
	"encoding/json"
	"fmt"
	"os"
	"testing"
	"time"

	"bsim/core"
	"bsim/model"
	"bsim/scen"

	"github.com/blevesearch/bleve/v2/index/scorch"
)

// TestPlainLayout is a debugging aid: replays a layout replay file on a plain index (no scheduler), runs the
// requests before and after a forced merge and prints hits with scores and locations.
func TestPlainLayout(t *testing.T) {
	if *fReplay == "" {
		t.Skip("no -bsim.replay")
	}
	b, _ := os.ReadFile(*fReplay)
	var spec core.Spec
	json.Unmarshal(b, &spec)
	var cfg scen.LayoutCfg
	var wl scen.LayoutWL
	json.Unmarshal(spec.Config, &cfg)
	json.Unmarshal(spec.Workload, &wl)
	ic := model.IndexCfg{Engine: "scorch", Unsafe: true, NapMS: 0}
	idx, err := ic.Create(t.TempDir()+"/i", model.Mapping(false))
	if err != nil {
		t.Fatal(err)
	}
	defer idx.Close()
	for _, op := range wl.Ops {
		if op.K == "batch" && op.Batch != nil {
			for _, d := range op.Batch.Docs {
				js, _ := json.Marshal(model.MakeDoc(d.ID, d.Ver, true).Input())
				fmt.Printf("doc %s: %s\n", d.ID, js)
			}
			bb, _ := scen.BuildBatch(idx, *op.Batch, true)
			idx.Batch(bb)
		}
	}
	time.Sleep(500 * time.Millisecond)
	show := func(tag string) {
		for _, r := range wl.Reqs {
			for _, score := range []string{"none", ""} {
				req := r.Bleve()
				req.Score = score
				res, err := idx.Search(req)
				if err != nil {
					t.Fatal(err)
				}
				sm := idx.StatsMap()["index"].(map[string]interface{})
				fmt.Printf("%s score=%q segments=%v:\n", tag, score, sm["num_persisted_segments"])
				for _, h := range res.Hits {
					lj, _ := json.Marshal(h.Locations)
					fmt.Printf("   %s score=%v locs=%s\n", h.ID, h.Score, lj)
				}
			}
		}
	}
	show("before merge")
	adv, _ := idx.Advanced()
	adv.(*scorch.Scorch).ForceMerge(context.Background(), nil)
	time.Sleep(300 * time.Millisecond)
	show("after merge")
}
