#!/bin/bash
# usage: runseeds.sh PROP START END [extra flags] ; parallel 16 workers, restarts after bad seed
PROP=$1; A=$2; B=$3; shift 3
OUT=/tmp/rs-$PROP; rm -rf $OUT; mkdir -p $OUT
BIN=${BIN:-/verif/.cache/dev/bsim.test}
N=$(( (B - A + 15) / 16 ))
for i in $(seq 0 15); do
  (
    s=$((A + i*N)); e=$((s+N)); [ $e -gt $B ] && e=$B
    part=0
    while [ $s -lt $e ]; do
      cd /tmp && GOMAXPROCS=${GMP:-2} $BIN -test.run TestWorker -test.timeout 2h -bsim.prop $PROP -bsim.seeds $s:$e -bsim.out $OUT/w$i-$part.jsonl "$@" >/dev/null 2>$OUT/w$i-$part.err
      rc=$?
      last=$(tail -1 $OUT/w$i-$part.jsonl 2>/dev/null | jq -r '.spec.seed' 2>/dev/null)
      if [ $rc -eq 0 ] || [ -z "$last" ]; then break; fi
      s=$((last+1)); part=$((part+1))
    done
  ) &
done
wait
cat $OUT/*.jsonl > $OUT/all.jsonl
jq -s -c '{runs:length, viol:[.[]|select(.violations!=null)]|length, harness:[.[]|select(.harness_error!=null)]|length, completed:[.[]|select(.completed)]|length, nontrivial:[.[]|select(.nontrivial)]|length, steps:(map(.steps)|add), wall_ms:(map(.wall_ms)|add), checks:(map(.checks)|add)}' $OUT/all.jsonl
jq -r 'select(.violations!=null) | .violations[] | .property+"|"+.clause' $OUT/all.jsonl | sort | uniq -c
jq -r 'select(.harness_error!=null) | "\(.spec.seed): \(.harness_error[0:200])"' $OUT/all.jsonl | head
