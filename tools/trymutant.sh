#!/bin/bash
# usage: trymutant.sh <patch.diff> <Cxx> [<Cyy> ...]   applies the patch to /repo, runs the quick checks, reverts.
set -u
PATCH=$1; shift
cd /repo || exit 2
if [ -n "$(git status --porcelain)" ]; then echo "trymutant: /repo is not clean"; exit 2; fi
git apply "$PATCH" || { echo "trymutant: patch does not apply"; exit 2; }
trap 'git -C /repo checkout -- . ; git -C /repo clean -fdq' EXIT
for P in "$@"; do
  out=$(cd /verif && BSIM_NO_EVIDENCE=1 ./check "$P" "${TIER:-quick}" 2>&1); rc=$?
  echo "== $P exit=$rc"
  echo "$out" | grep -E "^VIOLATION|^bsim: C[0-9]+\||detail:|harness trouble|BUILD FAILED|did NOT reproduce" | cut -c1-400 | head -12
done
