#!/bin/bash
# usage: trymutant.sh <name> <patch.diff> <Cxx> [<Cyy> ...]
# Applies the patch to a scratch worktree of /repo (never to /repo itself), and runs the checks of a snapshot of the
# committed /verif against it (so that editing /verif meanwhile does not disturb the trial). Prints one line per check.
set -u
NAME=$1; PATCH=$2; shift 2
WT=/dev/shm/mt-$NAME
VC=$(git -C /verif rev-parse --short HEAD)
VS=/dev/shm/verif-snap-$VC
if [ ! -d "$VS" ]; then git -C /verif worktree add --detach "$VS" HEAD -q || exit 2; fi
git -C /repo worktree remove --force "$WT" 2>/dev/null
git -C /repo worktree add --detach "$WT" HEAD -q || exit 2
( cd "$WT" && git apply "$PATCH" ) || { echo "trymutant: patch does not apply"; git -C /repo worktree remove --force "$WT"; exit 2; }
for P in "$@"; do
  out=$(cd "$VS" && BSIM_REPO="$WT" BSIM_NO_EVIDENCE=1 ./check "$P" "${TIER:-quick}" 2>&1); rc=$?
  echo "== $NAME $P exit=$rc"
  echo "$out" | grep -E "^VIOLATION|^bsim: C[0-9]+\||detail:|harness trouble|BUILD FAILED|did NOT reproduce|probes at zero" | cut -c1-420 | head -10
done
git -C /repo worktree remove --force "$WT"
