#!/bin/bash
# usage: confirm_mutant.sh <outdir e.g. /tmp/mut-C05-out/1> <name e.g. C05-1>
# Confirms, in a scratch worktree: demo passes without the patch, fails with it, and the whole suite passes with it.
# The suite runs in a private mount namespace with its own /tmp (some tests use fixed names under /tmp and other
# jobs run the same suite concurrently); packages that fail are re-run once alone (timing-sensitive tests under load).
set -u
SRC=$1; NAME=$2
WT=/dev/shm/cf-$NAME
LOG=/dev/shm/cf-$NAME.log
: > $LOG
git -C /repo worktree remove --force $WT 2>/dev/null
git -C /repo worktree add --detach $WT HEAD -q || exit 2
export GOFLAGS=-mod=mod GOPROXY=off
cd $WT
pkgdir() { case "$(grep -m1 '^package' "$1" | awk '{print $2}')" in
  scorch) echo index/scorch;; gtreap) echo index/upsidedown/store/gtreap;; moss) echo index/upsidedown/store/moss;; metrics) echo index/upsidedown/store/metrics;; boltdb) echo index/upsidedown/store/boltdb;; goleveldb) echo index/upsidedown/store/goleveldb;; mapping) echo mapping;; query) echo search/query;;
  upsidedown) echo index/upsidedown;; searcher) echo search/searcher;; collector) echo search/collector;;
  zz_demo) mkdir -p zz_demo; echo zz_demo;; *) echo .;; esac; }
for f in $SRC/*_test.go; do d=$(pkgdir $f); cp $f $d/zz_$(basename $f); done
inns() { unshare -m bash -c "mount -t tmpfs tmpfs /tmp || exit 99; cd $WT || exit 98; $1"; }
run_demos() {
  rc=0
  for f in $SRC/*_test.go; do
    d=$(pkgdir $f); pat=$(grep -o '^func Test[A-Za-z0-9_]*' $f | sed 's/func //' | paste -sd'|')
    inns "cd $d && go test -vet=off -count=1 -timeout 15m -run '^($pat)\$' ." >> $LOG 2>&1 || rc=1
  done
  return $rc
}
echo "--- demos WITHOUT patch" >> $LOG
run_demos; without=$?
git apply $SRC/patch.diff >> $LOG 2>&1 || { echo "$NAME: patch does not apply"; exit 2; }
echo "--- demos WITH patch" >> $LOG
run_demos; with=$?
find . -name 'zz_*_test.go' -delete; rm -rf zz_demo
echo "--- full suite WITH patch" >> $LOG
inns "go test -vet=off -count=1 -timeout 25m ./..." > /dev/shm/cf-$NAME.suite 2>&1; suite=$?
failed=$(grep "^FAIL	" /dev/shm/cf-$NAME.suite | awk '{print $2}' | sed 's|github.com/blevesearch/bleve/v2|.|')
retry=""
if [ -n "$failed" ]; then
  suite=0
  for p in $failed; do
    inns "go test -vet=off -count=1 -timeout 25m $p" > /dev/shm/cf-$NAME.retry 2>&1 || { suite=1; retry="$retry $p(still fails: $(grep -m2 '^--- FAIL' /dev/shm/cf-$NAME.retry | tr '\n' ' '))"; }
  done
  [ $suite = 0 ] && retry=" (first run failed in:$(echo $failed | tr '\n' ' '); passed when re-run alone)"
fi
echo "$NAME: demos without patch rc=$without (want 0), with patch rc=$with (want 1), suite rc=$suite (want 0)$retry"
cd /; git -C /repo worktree remove --force $WT
