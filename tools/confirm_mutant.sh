#!/bin/bash
# usage: confirm_mutant.sh <outdir e.g. /tmp/mut-C05-out/1> <name e.g. C05-1>
# Confirms, in a scratch worktree: demo passes without the patch, fails with it, and the whole suite passes with it.
set -u
SRC=$1; NAME=$2
WT=/tmp/cf-$NAME
LOG=/tmp/cf-$NAME.log
: > $LOG
git -C /repo worktree remove --force $WT 2>/dev/null
git -C /repo worktree add --detach $WT HEAD -q || exit 2
export GOFLAGS=-mod=mod GOPROXY=off TMPDIR=/tmp/cf-$NAME-tmp
mkdir -p $TMPDIR
cd $WT
pkgdir() { case "$(grep -m1 '^package' "$1" | awk '{print $2}')" in scorch) echo index/scorch;; *) echo .;; esac; }
tests=""
for f in $SRC/*_test.go; do
  d=$(pkgdir $f); cp $f $d/zz_$(basename $f)
  tests="$tests $(grep -o '^func Test[A-Za-z0-9_]*' $f | sed 's/func //' | tr '\n' '|')"
done
run_demos() {
  rc=0
  for f in $SRC/*_test.go; do
    d=$(pkgdir $f); pat=$(grep -o '^func Test[A-Za-z0-9_]*' $f | sed 's/func //' | paste -sd'|')
    (cd $d && go test -vet=off -count=1 -timeout 15m -run "^($pat)\$" . ) >> $LOG 2>&1 || rc=1
  done
  return $rc
}
echo "--- demos WITHOUT patch" >> $LOG
run_demos; without=$?
git apply $SRC/patch.diff >> $LOG 2>&1 || { echo "$NAME: patch does not apply"; exit 2; }
echo "--- demos WITH patch" >> $LOG
run_demos; with=$?
# full suite with the patch (demos removed)
rm -f ./zz_*_test.go index/scorch/zz_*_test.go
echo "--- full suite WITH patch" >> $LOG
go test -vet=off -count=1 -timeout 25m ./... > /tmp/cf-$NAME.suite 2>&1; suite=$?
nfail=$(grep -c "^FAIL\|^--- FAIL" /tmp/cf-$NAME.suite)
echo "$NAME: demos without patch rc=$without (want 0), with patch rc=$with (want 1), suite rc=$suite fails=$nfail (want 0)"
cd /; git -C /repo worktree remove --force $WT; rm -rf $TMPDIR
