// maprange lists range-over-map loops in the instrumented bleve packages whose body calls anything but
// builtins: the iteration order of such a loop can leak into the schedule of a simulated run.
// Usage: cd <bleve tree> && maprange . ./index/scorch ./index/upsidedown ./search/collector
package main

import (
	"fmt"
	"go/ast"
	"go/types"
	"os"

	"golang.org/x/tools/go/packages"
)

func main() {
	cfg := &packages.Config{Mode: packages.NeedTypes | packages.NeedSyntax | packages.NeedTypesInfo | packages.NeedName | packages.NeedFiles, BuildFlags: []string{"-tags=verif"}}
	pkgs, err := packages.Load(cfg, os.Args[1:]...)
	if err != nil {
		fmt.Println(err)
		os.Exit(2)
	}
	n := 0
	for _, p := range pkgs {
		for _, f := range p.Syntax {
			ast.Inspect(f, func(nd ast.Node) bool {
				rs, ok := nd.(*ast.RangeStmt)
				if !ok {
					return true
				}
				t := p.TypesInfo.TypeOf(rs.X)
				if t == nil {
					return true
				}
				if _, isMap := t.Underlying().(*types.Map); !isMap {
					return true
				}
				calls := []string{}
				ast.Inspect(rs.Body, func(b ast.Node) bool {
					switch c := b.(type) {
					case *ast.CallExpr:
						if id, ok := c.Fun.(*ast.Ident); ok {
							if _, isB := p.TypesInfo.Uses[id].(*types.Builtin); isB {
								return true
							}
							if tv, ok := p.TypesInfo.Types[c.Fun]; ok && tv.IsType() {
								return true
							}
						}
						calls = append(calls, types.ExprString(c.Fun))
					case *ast.SendStmt, *ast.GoStmt, *ast.SelectStmt:
						calls = append(calls, "<chan/go/select>")
					}
					return true
				})
				if len(calls) > 0 {
					n++
					fmt.Printf("%s: range over map %s; body calls %v\n", p.Fset.Position(rs.Pos()), types.ExprString(rs.X), calls)
				}
				return true
			})
		}
	}
	fmt.Println(n, "loops")
}
