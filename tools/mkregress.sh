#!/bin/bash
# usage: mkregress.sh <Cxx> <fix-commit> [clause-substring]
# Produces regress/<Cxx>/<fix-commit>.json: a (minimised) replay file found by the current check on a scratch worktree
# of /repo in which the "fix:" commit is reverted. The file must fail there and pass on /repo; it is then replayed
# by every run of ./check <Cxx>. Scratch worktree: /dev/shm/rv-<commit>, removed at the end.
set -u
P=$1; C=$2; CL=${3:-}
V=$(cd "$(dirname "$0")/.." && pwd)
WT=/dev/shm/rv-$C
git -C /repo worktree remove --force "$WT" 2>/dev/null
git -C /repo worktree add --detach "$WT" HEAD -q || exit 2
( cd "$WT" && git revert -n "$C" ) >/dev/null 2>&1 || { echo "mkregress: cannot revert $C"; git -C /repo worktree remove --force "$WT"; exit 2; }
out=$(cd "$V" && BSIM_REPO="$WT" BSIM_NO_EVIDENCE=1 BSIM_BUDGET=${BSIM_BUDGET:-300s} ./check "$P" quick 2>&1)
f=""
for cand in $(echo "$out" | grep "^VIOLATION property=$P " | sed 's/.*replay=//'); do
  case "$cand" in *"$CL"*) ;; *) continue;; esac
  (cd "$V" && BSIM_NO_EVIDENCE=1 ./check --replay "$cand" >/dev/null 2>&1); onfixed=$?
  (cd "$V" && BSIM_REPO="$WT" BSIM_NO_EVIDENCE=1 ./check --replay "$cand" >/dev/null 2>&1); onreverted=$?
  echo "candidate $cand: on /repo rc=$onfixed, with $C reverted rc=$onreverted"
  if [ $onfixed -eq 0 ] && [ $onreverted -eq 1 ]; then f=$cand; break; fi
done
git -C /repo worktree remove --force "$WT"
if [ -z "$f" ]; then echo "mkregress: no replay file separates the trees"; echo "$out" | grep -E "^VIOLATION|^bsim: C" | head; exit 1; fi
mkdir -p "$V/regress/$P"; cp "$f" "$V/regress/$P/$C.json"; echo "stored regress/$P/$C.json"
