module simrewrite

go 1.26.8

require golang.org/x/tools v0.50.0
