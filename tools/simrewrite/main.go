// simrewrite instruments a scratch copy of blevesearch/bleve for deterministic simulation.
// It is purely syntactic and generic (works on any valid Go):
//
//  1. every select      -> cases polled in an order obtained from simhook.SelectOrder, then (if no
//     default) a blocking select that only records which case fired, then a
//     switch with the original bodies; a "sel:" yield heads every comm case body
//     and a "presel:" yield precedes the statement;
//  2. X.Lock/RLock/Unlock/RUnlock() (also deferred) -> simhook.Lock(&X) ... (try-lock loops under a simulator);
//  3. go f(args)        -> operands evaluated at the go statement, then simhook.Go(role, func(){ f(tmp...) });
//  4. a "pre:"/"post:" yield around every statement that is a channel send, receive, close(ch) or X.Wait(),
//     and a "lock:" yield before every statement that is a Lock()/RLock() call.
//
// Usage: simrewrite [-min-selects N -min-locks N -min-gos N -min-chanops N] <dir>...
// Every non-test .go file of each dir whose build constraints hold under the tag "verif" is rewritten in place.
package main

import (
	"bytes"
	"flag"
	"fmt"
	"go/ast"
	"go/build"
	"go/format"
	"go/parser"
	"go/token"
	"os"
	"path/filepath"
	"sort"
	"strings"

	"golang.org/x/tools/go/ast/astutil"
)

const rtPkg = "github.com/blevesearch/bleve/v2/util/simhook"

var fset = token.NewFileSet()

var counts = map[string]int{}

func src(n ast.Node) string {
	var b bytes.Buffer
	if err := format.Node(&b, fset, n); err != nil {
		panic(err)
	}
	return b.String()
}

func die(format string, a ...any) {
	fmt.Fprintf(os.Stderr, "simrewrite: "+format+"\n", a...)
	os.Exit(2)
}

var counter int

var loopYields bool

func parseStmt(code string) ast.Stmt {
	wrapped := "package p\nfunc _() {\n" + code + "\n}\n"
	f, err := parser.ParseFile(token.NewFileSet(), "", wrapped, 0)
	if err != nil {
		die("generated code does not parse: %v\n%s", err, wrapped)
	}
	return f.Decls[0].(*ast.FuncDecl).Body.List[0]
}

func rewriteSelect(base string, sel *ast.SelectStmt) ast.Stmt {
	counter++
	id := counter
	pos := fset.Position(sel.Pos())
	site := fmt.Sprintf("%s:%d", base, pos.Line)
	var pre, polls, blockCases, bodies []string
	defaultIdx := -1
	for ci, c := range sel.Body.List {
		cc := c.(*ast.CommClause)
		var body bytes.Buffer
		for _, st := range cc.Body {
			body.WriteString(src(st))
			body.WriteString("\n")
		}
		if cc.Comm == nil {
			defaultIdx = ci
			bodies = append(bodies, fmt.Sprintf("case %d:\n%s", ci, body.String()))
			continue
		}
		bodyStr := fmt.Sprintf("simhook.Yield(\"\", \"sel:%s:%d\")\n", site, ci) + body.String()
		ch := fmt.Sprintf("_sc%d_%d", id, ci)
		switch comm := cc.Comm.(type) {
		case *ast.SendStmt:
			val := fmt.Sprintf("_sv%d_%d", id, ci)
			pre = append(pre, fmt.Sprintf("%s := %s", ch, src(comm.Chan)), fmt.Sprintf("%s := %s", val, src(comm.Value)))
			polls = append(polls, fmt.Sprintf("case %d:\nselect {\ncase %s <- %s:\n_si%d = %d\ndefault:\n}", ci, ch, val, id, ci))
			blockCases = append(blockCases, fmt.Sprintf("case %s <- %s:\n_si%d = %d", ch, val, id, ci))
			bodies = append(bodies, fmt.Sprintf("case %d:\n%s", ci, bodyStr))
		case *ast.ExprStmt:
			ue, ok := comm.X.(*ast.UnaryExpr)
			if !ok {
				die("%s: unhandled comm expr", site)
			}
			pre = append(pre, fmt.Sprintf("%s := %s", ch, src(ue.X)))
			polls = append(polls, fmt.Sprintf("case %d:\nselect {\ncase <-%s:\n_si%d = %d\ndefault:\n}", ci, ch, id, ci))
			blockCases = append(blockCases, fmt.Sprintf("case <-%s:\n_si%d = %d", ch, id, ci))
			bodies = append(bodies, fmt.Sprintf("case %d:\n%s", ci, bodyStr))
		case *ast.AssignStmt:
			ue, ok := comm.Rhs[0].(*ast.UnaryExpr)
			if !ok {
				die("%s: unhandled comm assign", site)
			}
			rv := fmt.Sprintf("_rv%d_%d", id, ci)
			ok2 := fmt.Sprintf("_ro%d_%d", id, ci)
			pre = append(pre, fmt.Sprintf("%s := %s", ch, src(ue.X)),
				fmt.Sprintf("%s := simhook.ZeroOf(%s); var %s bool; _, _ = %s, %s", rv, ch, ok2, rv, ok2))
			polls = append(polls, fmt.Sprintf("case %d:\nselect {\ncase %s, %s = <-%s:\n_si%d = %d\ndefault:\n}", ci, rv, ok2, ch, id, ci))
			blockCases = append(blockCases, fmt.Sprintf("case %s, %s = <-%s:\n_si%d = %d", rv, ok2, ch, id, ci))
			lhs := []string{src(comm.Lhs[0])}
			rhs := []string{rv}
			if len(comm.Lhs) == 2 {
				lhs = append(lhs, src(comm.Lhs[1]))
				rhs = append(rhs, ok2)
			}
			asg := fmt.Sprintf("%s %s %s", strings.Join(lhs, ", "), comm.Tok.String(), strings.Join(rhs, ", "))
			if comm.Tok == token.DEFINE {
				for _, l := range lhs {
					if l != "_" {
						asg += fmt.Sprintf("\n_ = %s", l)
					}
				}
			}
			bodies = append(bodies, fmt.Sprintf("case %d:\n%s\n%s", ci, asg, bodyStr))
		default:
			die("%s: unhandled comm %T", site, comm)
		}
	}
	var b strings.Builder
	fmt.Fprintf(&b, "{\n")
	if defaultIdx < 0 {
		fmt.Fprintf(&b, "simhook.Yield(\"\", \"presel:%s\")\n", site)
	}
	fmt.Fprintf(&b, "%s\n_si%d := -1\n", strings.Join(pre, "\n"), id)
	if len(polls) > 0 {
		fmt.Fprintf(&b, "for _, _sk := range simhook.SelectOrder(%q, %d) {\nswitch _sk {\n%s\n}\nif _si%d >= 0 {\nbreak\n}\n}\n", site, len(sel.Body.List), strings.Join(polls, "\n"), id)
	}
	if defaultIdx >= 0 {
		fmt.Fprintf(&b, "if _si%d < 0 {\n_si%d = %d\n}\n", id, id, defaultIdx)
	} else {
		fmt.Fprintf(&b, "if _si%d < 0 {\nselect {\n%s\n}\n}\n", id, strings.Join(blockCases, "\n"))
	}
	// the default case keeps the statement "terminating" in Go's sense when every original case body is
	fmt.Fprintf(&b, "switch _si%d {\n%s\ndefault:\npanic(\"bsim: select resolved to no case\")\n}\n}", id, strings.Join(bodies, "\n"))
	return parseStmt(b.String())
}

func isRecvExpr(e ast.Expr) bool {
	u, ok := e.(*ast.UnaryExpr)
	return ok && u.Op == token.ARROW
}

// stmtBlocks reports whether a statement is a plain channel send/receive, close() or X.Wait()
func stmtBlocks(st ast.Stmt) bool {
	switch v := st.(type) {
	case *ast.SendStmt:
		return true
	case *ast.ExprStmt:
		if isRecvExpr(v.X) {
			return true
		}
		if c, ok := v.X.(*ast.CallExpr); ok {
			if id, ok := c.Fun.(*ast.Ident); ok && id.Name == "close" && len(c.Args) == 1 {
				return true
			}
			if se, ok := c.Fun.(*ast.SelectorExpr); ok && se.Sel.Name == "Wait" && len(c.Args) == 0 {
				return true
			}
		}
	case *ast.AssignStmt:
		if len(v.Rhs) == 1 && isRecvExpr(v.Rhs[0]) {
			return true
		}
	}
	return false
}

var lockNames = map[string]bool{"Lock": true, "RLock": true, "Unlock": true, "RUnlock": true}

// addressable reports whether e is a plain identifier / selector / index chain (so &e compiles).
func addressable(e ast.Expr) bool {
	switch v := e.(type) {
	case *ast.Ident:
		return true
	case *ast.SelectorExpr:
		return addressable(v.X)
	case *ast.IndexExpr:
		return addressable(v.X)
	case *ast.ParenExpr:
		return addressable(v.X)
	case *ast.StarExpr:
		return true
	}
	return false
}

func rewriteLockCall(c *ast.CallExpr) bool {
	se, ok := c.Fun.(*ast.SelectorExpr)
	if !ok || len(c.Args) != 0 || !lockNames[se.Sel.Name] {
		return false
	}
	if !addressable(se.X) {
		return false
	}
	recv := se.X
	c.Fun = &ast.SelectorExpr{X: ast.NewIdent("simhook"), Sel: ast.NewIdent(se.Sel.Name)}
	c.Args = []ast.Expr{&ast.UnaryExpr{Op: token.AND, X: recv}}
	return true
}

func rewriteGo(g *ast.GoStmt) ast.Stmt {
	var pre []string
	call := g.Call
	fun := src(call.Fun)
	role := "func"
	if _, isLit := call.Fun.(*ast.FuncLit); !isLit {
		role = fun
		pre = append(pre, "_gf := "+fun)
		fun = "_gf"
	} else {
		role = fmt.Sprintf("func@%d", fset.Position(g.Pos()).Line)
		fun = "(" + fun + ")"
	}
	var args []string
	for i, a := range call.Args {
		pre = append(pre, fmt.Sprintf("_ga%d := %s", i, src(a)))
		args = append(args, fmt.Sprintf("_ga%d", i))
	}
	ell := ""
	if call.Ellipsis.IsValid() {
		ell = "..."
	}
	code := "{\n" + strings.Join(pre, "\n") + fmt.Sprintf("\nsimhook.Go(%q, func() { ", role) + fun + "(" + strings.Join(args, ", ") + ell + ") })\n}"
	return parseStmt(code)
}

func rewriteFile(path string) {
	f, err := parser.ParseFile(fset, path, nil, parser.ParseComments)
	if err != nil {
		die("%v", err)
	}
	changed := 0
	base := filepath.Base(path)
	// labelled selects cannot be turned into blocks
	ast.Inspect(f, func(n ast.Node) bool {
		if l, ok := n.(*ast.LabeledStmt); ok {
			if _, ok := l.Stmt.(*ast.SelectStmt); ok {
				die("%s: labelled select statement is not supported", fset.Position(l.Pos()))
			}
		}
		return true
	})
	// pass 1 (pre-order, original positions): locks, yields around blocking statements
	astutil.Apply(f, func(c *astutil.Cursor) bool {
		switch n := c.Node().(type) {
		case *ast.CallExpr:
			if rewriteLockCall(n) {
				changed++
				counts["locks"]++
			}
		}
		if loopYields {
			// a scheduling point at the head of every loop iteration (used for the KV store adapters, whose batch
			// execution loops contain no synchronisation of their own)
			var body *ast.BlockStmt
			switch l := c.Node().(type) {
			case *ast.ForStmt:
				body = l.Body
			case *ast.RangeStmt:
				body = l.Body
			}
			if body != nil {
				line := fset.Position(body.Pos()).Line
				body.List = append([]ast.Stmt{parseStmt(fmt.Sprintf("simhook.Yield(\"\", \"loop:%s:%d\")", base, line))}, body.List...)
				changed++
				counts["loops"]++
			}
		}
		if es, ok := c.Node().(*ast.ExprStmt); ok && c.Index() >= 0 {
			// a scheduling point before every lock acquisition
			if call, ok := es.X.(*ast.CallExpr); ok {
				if se, ok := call.Fun.(*ast.SelectorExpr); ok && len(call.Args) == 0 && (se.Sel.Name == "Lock" || se.Sel.Name == "RLock") && addressable(se.X) {
					line := fset.Position(es.Pos()).Line
					c.InsertBefore(parseStmt(fmt.Sprintf("simhook.Yield(\"\", \"lock:%s:%d\")", base, line)))
					counts["lockyields"]++
				}
			}
		}
		if st, ok := c.Node().(ast.Stmt); ok && stmtBlocks(st) && c.Index() >= 0 {
			line := fset.Position(st.Pos()).Line
			c.InsertBefore(parseStmt(fmt.Sprintf("simhook.Yield(\"\", \"pre:%s:%d\")", base, line)))
			c.InsertAfter(parseStmt(fmt.Sprintf("simhook.Yield(\"\", \"post:%s:%d\")", base, line)))
			changed++
			counts["chanops"]++
		}
		return true
	}, nil)
	// pass 2 (post-order, so nested constructs are already rewritten): selects and go statements
	astutil.Apply(f, nil, func(c *astutil.Cursor) bool {
		switch n := c.Node().(type) {
		case *ast.SelectStmt:
			c.Replace(rewriteSelect(base, n))
			changed++
			counts["selects"]++
		case *ast.GoStmt:
			c.Replace(rewriteGo(n))
			changed++
			counts["gos"]++
		}
		return true
	})
	if changed == 0 {
		return
	}
	astutil.AddImport(fset, f, rtPkg)
	// keep only the comments before the package clause (license, build constraints): comments inside
	// rewritten bodies would be misplaced by the printer
	var keep []*ast.CommentGroup
	for _, cg := range f.Comments {
		if cg.End() < f.Package {
			keep = append(keep, cg)
		}
	}
	f.Comments = keep
	var out bytes.Buffer
	if err := format.Node(&out, fset, f); err != nil {
		die("%s: %v", path, err)
	}
	if err := os.WriteFile(path, out.Bytes(), 0o644); err != nil {
		die("%v", err)
	}
	counts["files"]++
}

func main() {
	minSel := flag.Int("min-selects", 0, "fail unless at least this many select statements were rewritten")
	minLock := flag.Int("min-locks", 0, "")
	minGo := flag.Int("min-gos", 0, "")
	minChan := flag.Int("min-chanops", 0, "")
	flag.BoolVar(&loopYields, "loops", false, "also insert a yield at the head of every loop body")
	only := flag.String("only", "", "comma separated base names: rewrite only these files")
	flag.Parse()
	ctx := build.Default
	ctx.BuildTags = []string{"verif"}
	for _, dir := range flag.Args() {
		ents, err := os.ReadDir(dir)
		if err != nil {
			die("%v", err)
		}
		var names []string
		for _, e := range ents {
			n := e.Name()
			if e.IsDir() || !strings.HasSuffix(n, ".go") || strings.HasSuffix(n, "_test.go") {
				continue
			}
			ok, err := ctx.MatchFile(dir, n)
			if err != nil {
				die("%v", err)
			}
			if *only != "" && !strings.Contains(","+*only+",", ","+n+",") {
				ok = false
			}
			if ok {
				names = append(names, n)
			}
		}
		sort.Strings(names)
		for _, n := range names {
			rewriteFile(filepath.Join(dir, n))
		}
	}
	fmt.Printf("simrewrite: files=%d selects=%d locks=%d gos=%d chanops=%d loops=%d\n", counts["files"], counts["selects"], counts["locks"], counts["gos"], counts["chanops"], counts["loops"])
	if counts["selects"] < *minSel || counts["locks"] < *minLock || counts["gos"] < *minGo || counts["chanops"] < *minChan {
		die("fewer rewritten sites than expected (min selects=%d locks=%d gos=%d chanops=%d): the pass silently missed code", *minSel, *minLock, *minGo, *minChan)
	}
}
