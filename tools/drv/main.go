// drv fans simulated runs out over worker processes, gathers the results, minimises and replays
// violations in fresh processes, matches them against known_findings.jsonl, writes the evidence file and
// decides the exit code (0 held, 1 violation, 2 trouble of the machinery itself).
package main

import (
	"bufio"
	"bytes"
	"encoding/json"
	"flag"
	"fmt"
	"os"
	"os/exec"
	"path/filepath"
	"sort"
	"strconv"
	"strings"
	"sync"
	"time"
)

type Violation struct {
	Property string            `json:"property"`
	Clause   string            `json:"clause"`
	Sig      map[string]string `json:"sig,omitempty"`
	Detail   string            `json:"detail"`
	Step     int               `json:"step"`
}

func (v Violation) Key() string {
	var ks []string
	for k := range v.Sig {
		ks = append(ks, k)
	}
	sort.Strings(ks)
	var b strings.Builder
	fmt.Fprintf(&b, "%s|%s", v.Property, v.Clause)
	for _, k := range ks {
		fmt.Fprintf(&b, "|%s=%s", k, v.Sig[k])
	}
	return b.String()
}

type Spec struct {
	Property string          `json:"property"`
	Scenario string          `json:"scenario"`
	Seed     uint64          `json:"seed"`
	Tier     string          `json:"tier,omitempty"`
	Config   json.RawMessage `json:"config,omitempty"`
	Workload json.RawMessage `json:"workload,omitempty"`
	Tape     []uint32        `json:"tape,omitempty"`
	Replay   bool            `json:"replay,omitempty"`
	TreeHash string          `json:"tree_hash,omitempty"`
	Expect   *Violation      `json:"expect,omitempty"`
}

type Result struct {
	Spec        Spec           `json:"spec"`
	Violations  []Violation    `json:"violations,omitempty"`
	Harness     string         `json:"harness_error,omitempty"`
	Steps       int            `json:"steps"`
	SimTimeMS   int64          `json:"sim_time_ms"`
	Fingerprint string         `json:"fingerprint"`
	Faults      map[string]int `json:"faults,omitempty"`
	Probes      map[string]int `json:"probes,omitempty"`
	Points      map[string]int `json:"points,omitempty"`
	Completed   bool           `json:"completed"`
	NonTrivial  bool           `json:"nontrivial"`
	Checks      int            `json:"checks"`
	LogHead     []string       `json:"log_head,omitempty"`
	WallMS      int64          `json:"wall_ms"`
	Summary     string         `json:"summary,omitempty"`
}

type Known struct {
	Status    string            `json:"status"` // known | fixed
	Property  string            `json:"property"`
	Clause    string            `json:"clause"`
	Signature map[string]string `json:"signature,omitempty"`
	What      string            `json:"what"`
	Commit    string            `json:"commit,omitempty"`
}

func (k Known) matches(v Violation) bool {
	if k.Status != "known" || k.Property != v.Property || k.Clause != v.Clause {
		return false
	}
	for sk, sv := range k.Signature {
		if v.Sig[sk] != sv {
			return false
		}
	}
	return true
}

var (
	fProp     = flag.String("prop", "", "property id")
	fTier     = flag.String("tier", "quick", "quick|thorough")
	fBin      = flag.String("bin", "", "bsim.test binary")
	fRuns     = flag.Int("runs", 200, "maximum number of simulated runs")
	fBudget   = flag.Duration("budget", 60*time.Second, "stop dispatching new runs after this wall-clock time")
	fWorkers  = flag.Int("workers", 16, "worker processes")
	fChunk    = flag.Int("chunk", 10, "seeds per worker invocation")
	fVerif    = flag.String("verif", "/verif", "verif directory")
	fLevel    = flag.String("level", "exploration", "evidence level")
	fReplay   = flag.String("replay", "", "replay this file instead of exploring")
	fTree     = flag.String("tree", "", "tree hash (recorded in replay files)")
	fMinimize = flag.Duration("minimize", 75*time.Second, "wall-clock budget for minimising one violation class")
	fMaxMin   = flag.Int("max-minimise", 2, "minimise at most this many violation classes per check (the others are reported with their original replay files)")
	fRule     = flag.String("rule", "", "non-triviality rule text for the evidence file")
	fProbes   = flag.String("require-probes", "", "comma separated probes that must be > 0 (thorough tier)")
	fExtra    = flag.String("extra", "", "extra flags passed to the worker binary")
	fFirst    = flag.Uint64("first-seed", 0, "debugging: use this as the first run seed instead of deriving it from VERIF_SEED")
	fOnlyKey  = flag.String("only", "", "debugging: only handle violations whose key contains this text")
	fEnum     = flag.String("enumerate", "", "bounded systematic sub-mode: \"L2\" = after the seeded exploration also run the fixed tiny scenario (tier enum) under every tape with one deviation from the all-zero tape (any position, values 1..3) and every tape with two deviations (value 1) among the first L2 positions")
	fSelftest = flag.Int("selftest", 0, "determinism self-test: run this many seeds three times (GOMAXPROCS 1, 4, 16, separate processes) and compare the event-log fingerprints")
)

var gomaxprocs = "2"

func splitmix(x uint64) uint64 {
	x += 0x9E3779B97F4A7C15
	z := x
	z = (z ^ (z >> 30)) * 0xBF58476D1CE4E5B9
	z = (z ^ (z >> 27)) * 0x94D049BB133111EB
	return z ^ (z >> 31)
}

func tmpDir() string {
	d := os.Getenv("BSIM_TMP")
	if d == "" {
		d = "/dev/shm"
	}
	return d
}

// dispatchDeadline: no further worker is started after it (exploration phase).
var dispatchDeadline time.Time

// runWorker runs seeds [a,b) and returns the results, resuming after runs that made the worker stop.
func runWorker(a, b uint64, extra []string) ([]Result, error) {
	var out []Result
	for a < b {
		f, err := os.CreateTemp(tmpDir(), "bsim-out-*.jsonl")
		if err != nil {
			return out, err
		}
		f.Close()
		args := []string{"-test.run", "TestWorker", "-test.timeout", "6h", "-bsim.prop", *fProp, "-bsim.tier", *fTier,
			"-bsim.seeds", fmt.Sprintf("%d:%d", a, b), "-bsim.out", f.Name()}
		args = append(args, extra...)
		cmd := exec.Command(*fBin, args...)
		cmd.Env = append(os.Environ(), "GOMAXPROCS="+gomaxprocs)
		cmd.Dir = tmpDir()
		var stderr bytes.Buffer
		cmd.Stderr = &stderr
		err = cmd.Run()
		rs, perr := readResults(f.Name())
		os.Remove(f.Name())
		if perr != nil {
			return out, perr
		}
		out = append(out, rs...)
		if err == nil {
			return out, nil
		}
		if len(rs) == 0 {
			return out, fmt.Errorf("worker for seeds %d:%d failed without a result: %v\n%s", a, b, err, tail(stderr.String(), 4000))
		}
		last := rs[len(rs)-1]
		if ee, ok := err.(*exec.ExitError); ok && ee.ExitCode() == 10 {
			a = last.Spec.Seed + 1
			if !dispatchDeadline.IsZero() && time.Now().After(dispatchDeadline) {
				return out, nil // the budget is used up: the rest of this chunk is not run
			}
			continue
		}
		return out, fmt.Errorf("worker for seeds %d:%d died after seed %d: %v\n%s", a, b, last.Spec.Seed, err, tail(stderr.String(), 6000))
	}
	return out, nil
}

func tail(s string, n int) string {
	if len(s) > n {
		return s[len(s)-n:]
	}
	return s
}

func readResults(path string) ([]Result, error) {
	f, err := os.Open(path)
	if err != nil {
		return nil, err
	}
	defer f.Close()
	var out []Result
	sc := bufio.NewScanner(f)
	sc.Buffer(make([]byte, 1<<20), 1<<28)
	for sc.Scan() {
		var r Result
		if err := json.Unmarshal(sc.Bytes(), &r); err != nil {
			return out, fmt.Errorf("bad result line: %v", err)
		}
		out = append(out, r)
	}
	return out, sc.Err()
}

// runSpecFile runs one spec (replay) in a fresh process.
func runSpecFile(spec Spec) (*Result, error) {
	f, err := os.CreateTemp(tmpDir(), "bsim-spec-*.json")
	if err != nil {
		return nil, err
	}
	b, _ := json.Marshal(spec)
	f.Write(b)
	f.Close()
	defer os.Remove(f.Name())
	o := f.Name() + ".out"
	defer os.Remove(o)
	cmd := exec.Command(*fBin, "-test.run", "TestWorker", "-test.timeout", "30m", "-bsim.replay", f.Name(), "-bsim.out", o, "-bsim.tier", *fTier)
	cmd.Env = append(os.Environ(), "GOMAXPROCS=2")
	cmd.Dir = tmpDir()
	var stderr bytes.Buffer
	cmd.Stderr = &stderr
	rerr := cmd.Run()
	rs, err := readResults(o)
	if err != nil || len(rs) == 0 {
		return nil, fmt.Errorf("replay produced no result: %v %v\n%s", rerr, err, tail(stderr.String(), 3000))
	}
	return &rs[0], nil
}

func hasKey(r *Result, key string) bool {
	for _, v := range r.Violations {
		if v.Key() == key {
			return true
		}
	}
	return false
}

// ---- minimisation ----------------------------------------------------------------------------------

type path []any // keys (string) and indices (int) into a JSON value

func getAt(v any, p path) any {
	for _, k := range p {
		switch kk := k.(type) {
		case string:
			v = v.(map[string]any)[kk]
		case int:
			v = v.([]any)[kk]
		}
	}
	return v
}

func setAt(root any, p path, nv any) any {
	if len(p) == 0 {
		return nv
	}
	switch kk := p[0].(type) {
	case string:
		m := root.(map[string]any)
		c := map[string]any{}
		for k, v := range m {
			c[k] = v
		}
		c[kk] = setAt(m[kk], p[1:], nv)
		return c
	case int:
		a := root.([]any)
		c := append([]any(nil), a...)
		c[kk] = setAt(a[kk], p[1:], nv)
		return c
	}
	return root
}

func arrays(v any, p path, out *[]path) {
	switch vv := v.(type) {
	case map[string]any:
		var ks []string
		for k := range vv {
			ks = append(ks, k)
		}
		sort.Strings(ks)
		for _, k := range ks {
			arrays(vv[k], append(append(path(nil), p...), k), out)
		}
	case []any:
		*out = append(*out, append(path(nil), p...))
		for i, e := range vv {
			arrays(e, append(append(path(nil), p...), i), out)
		}
	}
}

func numbers(v any, p path, out *[]path) {
	switch vv := v.(type) {
	case map[string]any:
		var ks []string
		for k := range vv {
			ks = append(ks, k)
		}
		sort.Strings(ks)
		for _, k := range ks {
			numbers(vv[k], append(append(path(nil), p...), k), out)
		}
	case []any:
		for i, e := range vv {
			numbers(e, append(append(path(nil), p...), i), out)
		}
	case float64:
		if vv != 0 {
			*out = append(*out, append(path(nil), p...))
		}
	}
}

// tryParallel runs candidates in parallel and returns the index of the first (in order) that still shows key.
func tryParallel(cands []Spec, key string, deadline time.Time) (int, *Result) {
	type res struct {
		i int
		r *Result
	}
	best := -1
	var bestR *Result
	var mu sync.Mutex
	sem := make(chan struct{}, *fWorkers)
	var wg sync.WaitGroup
	for i := range cands {
		if time.Now().After(deadline) {
			break
		}
		mu.Lock()
		stop := best >= 0 && best < i
		mu.Unlock()
		if stop {
			break
		}
		wg.Add(1)
		sem <- struct{}{}
		go func(i int) {
			defer wg.Done()
			defer func() { <-sem }()
			r, err := runSpecFile(cands[i])
			if err != nil || r.Harness != "" {
				return
			}
			if hasKey(r, key) {
				mu.Lock()
				if best < 0 || i < best {
					best, bestR = i, r
				}
				mu.Unlock()
			}
		}(i)
	}
	wg.Wait()
	return best, bestR
}

func tapeEnd(t []uint32) int {
	n := len(t)
	for n > 0 && t[n-1] == 0 {
		n--
	}
	return n
}

func minimise(r *Result, key string) (*Result, int) {
	deadline := time.Now().Add(*fMinimize)
	cur := r
	cur.Spec.Replay = true
	tried := 0
	for round := 0; round < 40 && time.Now().Before(deadline); round++ {
		var cands []Spec
		base := cur.Spec
		// 1. shorter tape (the rest is padded with zeros: lowest-named task first, first case first)
		n := tapeEnd(base.Tape)
		for _, cut := range []int{0, n / 8, n / 4, n / 2, 3 * n / 4, 7 * n / 8, n - 8, n - 1} {
			if cut >= 0 && cut < n {
				c := base
				c.Tape = append([]uint32(nil), base.Tape[:cut]...)
				cands = append(cands, c)
			}
		}
		// 2. drop chunks of workload arrays
		var wl any
		if json.Unmarshal(base.Workload, &wl) == nil {
			var ps []path
			arrays(wl, nil, &ps)
			for _, p := range ps {
				a := getAt(wl, p).([]any)
				for size := len(a); size >= 1; size /= 2 {
					for start := 0; start+size <= len(a); start += size {
						na := append(append([]any(nil), a[:start]...), a[start+size:]...)
						nb, _ := json.Marshal(setAt(wl, p, na))
						c := base
						c.Workload = nb
						cands = append(cands, c)
					}
					if len(cands) > 400 {
						break
					}
				}
			}
		}
		// 3. zero blocks of the tape (fewer context switches)
		for _, bs := range []int{n / 2, n / 4, n / 8, 16, 4} {
			if bs < 1 {
				continue
			}
			for start := 0; start < n && len(cands) < 700; start += bs {
				allz := true
				for i := start; i < start+bs && i < n; i++ {
					if base.Tape[i] != 0 {
						allz = false
					}
				}
				if allz {
					continue
				}
				c := base
				c.Tape = append([]uint32(nil), base.Tape...)
				for i := start; i < start+bs && i < n; i++ {
					c.Tape[i] = 0
				}
				cands = append(cands, c)
			}
		}
		// 4. simpler configuration: numeric knobs to zero, one at a time
		var cf any
		if json.Unmarshal(base.Config, &cf) == nil {
			var ps []path
			numbers(cf, nil, &ps)
			for _, p := range ps {
				nb, _ := json.Marshal(setAt(cf, p, float64(0)))
				c := base
				c.Config = nb
				cands = append(cands, c)
			}
		}
		tried += len(cands)
		i, nr := tryParallel(cands, key, deadline)
		if i < 0 {
			break
		}
		nr.Spec.Replay = true
		cur = nr
	}
	return cur, tried
}

// ---- main ------------------------------------------------------------------------------------------

func loadKnown() []Known {
	var out []Known
	f, err := os.Open(filepath.Join(*fVerif, "known_findings.jsonl"))
	if err != nil {
		return nil
	}
	defer f.Close()
	sc := bufio.NewScanner(f)
	for sc.Scan() {
		line := strings.TrimSpace(sc.Text())
		if line == "" || strings.HasPrefix(line, "#") {
			continue
		}
		var k Known
		if err := json.Unmarshal([]byte(line), &k); err != nil {
			fmt.Fprintf(os.Stderr, "drv: bad known_findings line: %v\n", err)
			os.Exit(2)
		}
		out = append(out, k)
	}
	return out
}

func fail2(format string, a ...any) {
	fmt.Fprintf(os.Stderr, "drv: "+format+"\n", a...)
	os.Exit(2)
}

func main() {
	flag.Parse()
	if *fReplay != "" {
		doReplay()
		return
	}
	t0 := time.Now()
	vseed := uint64(1)
	if s := os.Getenv("VERIF_SEED"); s != "" {
		if v, err := strconv.ParseUint(s, 10, 64); err == nil {
			vseed = v
		}
	}
	pn, _ := strconv.Atoi(strings.TrimPrefix(*fProp, "C"))
	base := splitmix(vseed*1000003+uint64(pn)) & ((1 << 40) - 1)
	if *fFirst != 0 {
		base = *fFirst
	}
	fmt.Printf("bsim: property=%s tier=%s VERIF_SEED=%d first-run-seed=%d max-runs=%d budget=%v\n", *fProp, *fTier, vseed, base, *fRuns, *fBudget)
	var extra []string
	if *fExtra != "" {
		extra = strings.Fields(*fExtra)
	}

	if *fSelftest > 0 {
		selftest(base, extra)
		return
	}
	var mu sync.Mutex
	var results []Result
	var workerErr error
	dispatchDeadline = t0.Add(*fBudget)
	next := 0
	var wg sync.WaitGroup
	for w := 0; w < *fWorkers; w++ {
		wg.Add(1)
		go func() {
			defer wg.Done()
			for {
				mu.Lock()
				if next >= *fRuns || time.Since(t0) > *fBudget || workerErr != nil {
					mu.Unlock()
					return
				}
				a := next
				b := min(next+*fChunk, *fRuns)
				next = b
				mu.Unlock()
				rs, err := runWorker(base+uint64(a), base+uint64(b), extra)
				mu.Lock()
				results = append(results, rs...)
				if err != nil && workerErr == nil {
					workerErr = err
				}
				mu.Unlock()
			}
		}()
	}
	wg.Wait()
	dispatchDeadline = time.Time{}
	sort.Slice(results, func(i, j int) bool { return results[i].Spec.Seed < results[j].Spec.Seed })
	exploreWall := time.Since(t0)
	var enumDesc map[string]any
	if *fEnum != "" {
		ers, desc, err := enumerate()
		enumDesc = desc
		if err != nil && workerErr == nil {
			workerErr = err
		}
		results = append(results, ers...)
	}

	// aggregate
	known := loadKnown()
	fps := map[string]bool{}
	faults, probes, points := map[string]int{}, map[string]int{}, map[string]int{}
	var steps, simMS, checks, completed, nontrivial, harness int64
	byKey := map[string]*Result{}
	keyCount := map[string]int{}
	var harnessMsgs []string
	for i := range results {
		r := &results[i]
		steps += int64(r.Steps)
		simMS += r.SimTimeMS
		checks += int64(r.Checks)
		if r.Completed {
			completed++
		}
		if r.NonTrivial {
			nontrivial++
			fps[r.Fingerprint] = true
		}
		for k, v := range r.Faults {
			faults[k] += v
		}
		for k, v := range r.Probes {
			probes[k] += v
		}
		for k, v := range r.Points {
			points[k] += v
		}
		if r.Harness != "" {
			harness++
			if len(harnessMsgs) < 5 {
				harnessMsgs = append(harnessMsgs, fmt.Sprintf("seed %d: %s", r.Spec.Seed, tail(r.Harness, 1500)))
			}
		}
		for _, v := range r.Violations {
			k := v.Key()
			keyCount[k]++
			if byKey[k] == nil || len(r.Spec.Tape) < len(byKey[k].Spec.Tape) {
				byKey[k] = r
			}
		}
	}

	// classify violations
	var keys []string
	for k := range byKey {
		keys = append(keys, k)
	}
	sort.Strings(keys)
	exit := 0
	var vlines, klines []string
	knownSeen := map[int]bool{}
	unknownViol := 0
	minimised := 0
	replayDir := filepath.Join(*fVerif, "replays")
	if os.Getenv("BSIM_NO_EVIDENCE") != "" {
		replayDir = filepath.Join(tmpDir(), "bsim-replays-experiment")
	}
	os.MkdirAll(replayDir, 0o755)
	for _, k := range keys {
		if *fOnlyKey != "" && !strings.Contains(k, *fOnlyKey) {
			continue
		}
		r := byKey[k]
		var v Violation
		for _, vv := range r.Violations {
			if vv.Key() == k {
				v = vv
				break
			}
		}
		suppressed := false
		for i, kn := range known {
			if kn.matches(v) {
				suppressed = true
				if !knownSeen[i] {
					knownSeen[i] = true
					klines = append(klines, fmt.Sprintf("KNOWN-FINDING: property=%s %s %s (%d runs)", kn.Property, kn.Clause, kn.What, keyCount[k]))
				}
			}
		}
		if suppressed {
			continue
		}
		unknownViol += keyCount[k]
		// minimise (the first classes only: the budget of a check is bounded), then confirm in a fresh process
		fmt.Printf("bsim: violation %s, %d occurrences (first: seed %d)\n", k, keyCount[k], r.Spec.Seed)
		orig := *r
		orig.Spec.Replay = true
		confirm, err := runSpecFile(orig.Spec)
		unstable := err != nil || !hasKey(confirm, k)
		final := &orig
		tried := 0
		minimised++
		if !unstable && minimised <= *fMaxMin {
			m, n := minimise(&orig, k)
			tried = n
			if c2, err := runSpecFile(m.Spec); err == nil && hasKey(c2, k) {
				final = m
			}
		}
		for _, vv := range final.Violations {
			if vv.Key() == k {
				v = vv
			}
		}
		final.Spec.Expect = &v
		final.Spec.TreeHash = *fTree
		final.Spec.Replay = true
		name := fmt.Sprintf("%s-%s-%d.json", v.Property, sanitize(v.Clause), r.Spec.Seed)
		rp := filepath.Join(replayDir, name)
		b, _ := json.MarshalIndent(final.Spec, "", " ")
		os.WriteFile(rp, b, 0o644)
		if unstable {
			fmt.Printf("bsim: violation %s did NOT reproduce in a fresh process: treated as trouble of the machinery (exit 2); file %s\n", k, rp)
			if exit == 0 {
				exit = 2
			}
			continue
		}
		fmt.Printf("bsim: %s\n  detail: %s\n  minimised over %d candidates: tape %d -> %d values, workload %d -> %d bytes\n", k, tail(v.Detail, 1800), tried, len(r.Spec.Tape), tapeEnd(final.Spec.Tape), len(r.Spec.Workload), len(final.Spec.Workload))
		vlines = append(vlines, fmt.Sprintf("VIOLATION property=%s replay=%s", v.Property, rp))
		exit = 1
	}
	if harness > 0 || workerErr != nil {
		for _, m := range harnessMsgs {
			fmt.Fprintf(os.Stderr, "bsim: harness trouble: %s\n", m)
		}
		if workerErr != nil {
			fmt.Fprintf(os.Stderr, "bsim: worker trouble: %v\n", workerErr)
		}
		if exit == 0 {
			exit = 2
		}
	}
	if len(results) == 0 {
		fail2("no runs were executed")
	}
	// probes that must have been reached in a thorough run
	var missing []string
	if *fProbes != "" && *fTier == "thorough" {
		for _, p := range strings.Split(*fProbes, ",") {
			if probes[p] == 0 && faults[p] == 0 && points[p] == 0 {
				missing = append(missing, p)
			}
		}
		if len(missing) > 0 && exit == 0 {
			fmt.Fprintf(os.Stderr, "bsim: exploration did not reach what it claims: probes at zero: %v\n", missing)
			exit = 2
		}
	}

	// evidence
	var samples []any
	for i := 0; i < len(results) && len(samples) < 3; i += max(1, len(results)/3) {
		r := results[i]
		samples = append(samples, map[string]any{"seed": r.Spec.Seed, "config": r.Spec.Config, "workload": r.Spec.Workload, "first_events": r.LogHead,
			"steps": r.Steps, "faults": r.Faults, "summary": r.Summary, "violations": len(r.Violations), "fingerprint": r.Fingerprint})
	}
	wall := time.Since(t0).Seconds()
	cov := map[string]any{
		"evaluations":         len(results),
		"distinct_nontrivial": len(fps),
		"rule":                *fRule,
		"samples":             samples,
		"runs_per_hour":       int(float64(len(results)) / exploreWall.Hours()),
		"first_seed":          base,
		"seeds":               fmt.Sprintf("%d..%d", base, base+uint64(len(results))-1),
		"simulated_time_s":    float64(simMS) / 1000,
		"scheduler_steps":     steps,
		"oracle_evaluations":  checks,
		"runs_completed_workload": completed,
		"runs_nontrivial":     nontrivial,
		"faults_fired":        faults,
		"probes":              probes,
		"points":              points,
		"probes_missing":      missing,
		"harness_errors":      harness,
		"violation_classes":   keyCount,
		"known_findings_seen": klines,
		"tree_hash":           *fTree,
		"bounded_enumeration": enumDesc,
		"components": map[string]string{
			"real (instrumented at build time)": "bleve top level, index/scorch, index/upsidedown, search/collector",
			"real (not instrumented)":           "zapx v11-v17, bbolt, roaring, vellum, mmap-go, goleveldb, moss, gtreap, analysis, mapping, searchers, highlighters; files on tmpfs",
			"simulated":                         "goroutine scheduling among bleve tasks, select resolution, clock and timers (testing/synctest), process death (crash images), segment-file I/O errors (wrapper segment plugin)",
		},
	}
	ev := map[string]any{
		"property_id": *fProp, "tier": *fTier, "seed": vseed, "level": *fLevel, "coverage": cov, "wall_s": wall, "violations": unknownViol,
		"assumptions": []string{
			"tasks are interleaved at instrumented synchronisation points and named durable-state steps only; code between two such points runs atomically",
			"dependencies (zapx, bbolt, roaring, vellum, KV stores) run real but are not fault-injected internally; crash = process death with the page cache surviving",
			"a clean batch of runs is evidence, not proof: schedules and fault sequences are sampled from a seeded search",
		},
	}
	if os.Getenv("BSIM_NO_EVIDENCE") == "" { // experiments against modified trees must not overwrite the evidence
		os.MkdirAll(filepath.Join(*fVerif, "evidence"), 0o755)
		eb, _ := json.MarshalIndent(ev, "", " ")
		if err := os.WriteFile(filepath.Join(*fVerif, "evidence", *fProp+".json"), eb, 0o644); err != nil {
			fail2("%v", err)
		}
	}
	fmt.Printf("bsim: %d runs (%d completed their workload, %d non-trivial, %d distinct schedules), %d steps, %d oracle evaluations, %.0f s simulated, %.1f s wall; faults fired: %v\n",
		len(results), completed, nontrivial, len(fps), steps, checks, float64(simMS)/1000, wall, faults)
	for _, l := range klines {
		fmt.Println(l)
	}
	for _, l := range vlines {
		fmt.Println(l)
	}
	os.Exit(exit)
}

// selftest proves determinism on a sample: every seed is executed in three separate processes under
// different GOMAXPROCS; fingerprint (hash of the full task@point event log), step count and violation
// count must agree.
func selftest(base uint64, extra []string) {
	n := *fSelftest
	type sig struct {
		fp    string
		steps int
		viol  int
	}
	runs := map[string]map[uint64]sig{}
	for _, g := range []string{"1", "4", "16"} {
		gomaxprocs = g
		var mu sync.Mutex
		m := map[uint64]sig{}
		var wg sync.WaitGroup
		chunk := (n + *fWorkers - 1) / *fWorkers
		for a := 0; a < n; a += chunk {
			wg.Add(1)
			go func(a int) {
				defer wg.Done()
				rs, err := runWorker(base+uint64(a), base+uint64(min(a+chunk, n)), extra)
				if err != nil {
					fail2("selftest worker: %v", err)
				}
				mu.Lock()
				for _, r := range rs {
					m[r.Spec.Seed] = sig{r.Fingerprint, r.Steps, len(r.Violations)}
				}
				mu.Unlock()
			}(a)
		}
		wg.Wait()
		runs[g] = m
	}
	bad := 0
	for seed, a := range runs["1"] {
		for _, g := range []string{"4", "16"} {
			if b := runs[g][seed]; a != b {
				bad++
				if bad <= 10 {
					fmt.Printf("selftest: property=%s seed=%d differs: GOMAXPROCS=1 %+v vs GOMAXPROCS=%s %+v\n", *fProp, seed, a, g, b)
				}
			}
		}
	}
	fmt.Printf("selftest: property=%s seeds=%d x 3 processes (GOMAXPROCS 1/4/16): %d divergent\n", *fProp, len(runs["1"]), bad)
	if bad > 0 || len(runs["1"]) == 0 {
		os.Exit(2)
	}
	os.Exit(0)
}

// enumerate runs the bounded systematic sub-mode and returns its results and a description.
func enumerate() ([]Result, map[string]any, error) {
	l2, _ := strconv.Atoi(*fEnum)
	base := Spec{Property: *fProp, Tier: "enum", Seed: 0, Replay: true, Tape: []uint32{0}}
	// the all-zero tape first: its consumed length bounds the positions worth deviating at
	f, err := os.CreateTemp(tmpDir(), "bsim-enum-*.jsonl")
	if err != nil {
		return nil, nil, err
	}
	defer os.Remove(f.Name())
	b, _ := json.Marshal(base)
	f.Write(append(b, '\n'))
	f.Close()
	out := f.Name() + ".out"
	defer os.Remove(out)
	cmd := exec.Command(*fBin, "-test.run", "TestWorker", "-test.timeout", "30m", "-bsim.specs", f.Name(), "-bsim.out", out, "-bsim.tape", "-bsim.stop-on-bad=false")
	cmd.Env = append(os.Environ(), "GOMAXPROCS=2")
	cmd.Dir = tmpDir()
	if err := cmd.Run(); err != nil {
		return nil, nil, fmt.Errorf("enumeration base run: %v", err)
	}
	rs, err := readResults(out)
	if err != nil || len(rs) != 1 {
		return nil, nil, fmt.Errorf("enumeration base run produced no result: %v", err)
	}
	L := len(rs[0].Spec.Tape)
	var specs []Spec
	mk := func(dev map[int]uint32) Spec {
		mx := 0
		for p := range dev {
			if p > mx {
				mx = p
			}
		}
		t := make([]uint32, mx+1)
		for p, v := range dev {
			t[p] = v
		}
		sp := base
		sp.Tape = t
		return sp
	}
	for p := 0; p < L; p++ {
		for v := uint32(1); v <= 3; v++ {
			specs = append(specs, mk(map[int]uint32{p: v}))
		}
	}
	one := len(specs)
	for p := 0; p < l2 && p < L; p++ {
		for q := p + 1; q < l2 && q < L; q++ {
			specs = append(specs, mk(map[int]uint32{p: 1, q: 1}))
		}
	}
	// fan out
	var mu sync.Mutex
	var all []Result
	var firstErr error
	var wg sync.WaitGroup
	nw := *fWorkers
	for w := 0; w < nw; w++ {
		wg.Add(1)
		go func(w int) {
			defer wg.Done()
			sf, err := os.CreateTemp(tmpDir(), "bsim-enum-*.jsonl")
			if err != nil {
				return
			}
			bw := bufio.NewWriter(sf)
			n := 0
			for i := w; i < len(specs); i += nw {
				b, _ := json.Marshal(specs[i])
				bw.Write(b)
				bw.WriteByte('\n')
				n++
			}
			bw.Flush()
			sf.Close()
			defer os.Remove(sf.Name())
			o := sf.Name() + ".out"
			defer os.Remove(o)
			cmd := exec.Command(*fBin, "-test.run", "TestWorker", "-test.timeout", "6h", "-bsim.specs", sf.Name(), "-bsim.out", o, "-bsim.stop-on-bad=false")
			cmd.Env = append(os.Environ(), "GOMAXPROCS=2")
			cmd.Dir = tmpDir()
			var stderr bytes.Buffer
			cmd.Stderr = &stderr
			rerr := cmd.Run()
			rs, perr := readResults(o)
			mu.Lock()
			all = append(all, rs...)
			if (rerr != nil || perr != nil || len(rs) != n) && firstErr == nil {
				firstErr = fmt.Errorf("enumeration worker %d: %v %v (%d of %d specs): %s", w, rerr, perr, len(rs), n, tail(stderr.String(), 2000))
			}
			mu.Unlock()
		}(w)
	}
	wg.Wait()
	desc := map[string]any{"scenario": "fixed tiny scenario (2 writers x 2 batches, 1 observer, 1 held reader, 1 forced merge)", "tape_length_of_all_zero_run": L,
		"one_deviation_tapes": one, "two_deviation_tapes": len(specs) - one, "two_deviation_window": l2, "runs": len(all),
		"exhaustive_within_bound": firstErr == nil && len(all) == len(specs),
		"bound": "every tape that differs from the all-zero tape (lowest-named task first, identity select order) at one position (values 1..3) or at two positions below the window (value 1)"}
	return all, desc, firstErr
}

func sanitize(s string) string {
	return strings.Map(func(r rune) rune {
		if r >= 'a' && r <= 'z' || r >= 'A' && r <= 'Z' || r >= '0' && r <= '9' || r == '-' {
			return r
		}
		return '_'
	}, s)
}

func doReplay() {
	b, err := os.ReadFile(*fReplay)
	if err != nil {
		fail2("%v", err)
	}
	var spec Spec
	if err := json.Unmarshal(b, &spec); err != nil {
		fail2("%v", err)
	}
	spec.Replay = true
	r, err := runSpecFile(spec)
	if err != nil {
		fail2("%v", err)
	}
	if r.Harness != "" {
		fail2("harness trouble during replay: %s", r.Harness)
	}
	want := ""
	if spec.Expect != nil {
		want = spec.Expect.Key()
	}
	hit := false
	for _, v := range r.Violations {
		fmt.Printf("replayed: %s step=%d\n  %s\n", v.Key(), v.Step, tail(v.Detail, 3000))
		if want == "" || v.Key() == want {
			hit = true
		}
	}
	fmt.Printf("replay: steps=%d fingerprint=%s violations=%d\n", r.Steps, r.Fingerprint, len(r.Violations))
	if hit {
		prop := spec.Property
		if spec.Expect != nil {
			prop = spec.Expect.Property
		}
		fmt.Printf("VIOLATION property=%s replay=%s\n", prop, *fReplay)
		os.Exit(1)
	}
	fmt.Println("replay: the recorded violation did not occur on this tree")
	os.Exit(0)
}
