module drv

go 1.26.8
