#!/bin/bash
# usage: verify_regress.sh            re-validates every regress/<Cxx>/<commit>.json with the CURRENT harness:
# the file must pass on /repo and fail on a scratch worktree of /repo with <commit> reverted. A file that no longer
# separates the two trees (because the harness changed) is regenerated with tools/mkregress.sh.
set -u
V=$(cd "$(dirname "$0")/.." && pwd)
rc=0
for f in "$V"/regress/*/*.json; do
  P=$(basename "$(dirname "$f")"); C=$(basename "$f" .json)
  WT=/dev/shm/rv-$C
  git -C /repo worktree remove --force "$WT" 2>/dev/null
  git -C /repo worktree add --detach "$WT" HEAD -q || exit 2
  ( cd "$WT" && git revert -n "$C" ) >/dev/null 2>&1 || { echo "cannot revert $C"; git -C /repo worktree remove --force "$WT"; rc=2; continue; }
  (cd "$V" && BSIM_NO_EVIDENCE=1 ./check --replay "$f" >/dev/null 2>&1); a=$?
  (cd "$V" && BSIM_REPO="$WT" BSIM_NO_EVIDENCE=1 ./check --replay "$f" >/dev/null 2>&1); b=$?
  git -C /repo worktree remove --force "$WT"
  echo "$P $C: on /repo rc=$a (want 0), reverted rc=$b (want 1)"
  if [ $a -ne 0 ] || [ $b -ne 1 ]; then rc=1; fi
done
exit $rc
