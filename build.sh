#!/bin/bash
# Builds the simulator against the CURRENT working tree of /repo:
#   rsync /repo -> scratch, instrument with simrewrite, compile sim/ against it with -tags verif.
# Usage: build.sh <outdir>   (binaries: <outdir>/bsim.test, <outdir>/bsim-race.test if BSIM_RACE=1)
set -euo pipefail
export GOFLAGS=-mod=mod GOPROXY=off GOSUMDB=off GOTOOLCHAIN=local CGO_ENABLED=${CGO_ENABLED:-0}
VERIF=$(cd "$(dirname "$0")" && pwd)
REPO=${BSIM_REPO:-/repo}
OUT=$(mkdir -p "$1" && cd "$1" && pwd)
GO=go1.26.8
mkdir -p "$OUT"
SCRATCH=$(mktemp -d ${BSIM_SCRATCH_ROOT:-/dev/shm}/bsim-build-XXXXXX)
trap 'rm -rf "$SCRATCH"' EXIT
rsync -a --exclude .git "$REPO"/ "$SCRATCH/bleve/"
rsync -a "$VERIF/sim/" "$SCRATCH/sim/"
if [ ! -x "$VERIF/.cache/simrewrite" ] || [ "$VERIF/tools/simrewrite/main.go" -nt "$VERIF/.cache/simrewrite" ]; then
  mkdir -p "$VERIF/.cache"
  (cd "$VERIF/tools/simrewrite" && $GO build -o "$VERIF/.cache/simrewrite" .)
fi
(cd "$SCRATCH/bleve" && "$VERIF/.cache/simrewrite" -min-selects 12 -min-locks 150 -min-gos 15 -min-chanops 40 . index/scorch index/upsidedown search/collector) >&2
# the KV store adapters: locks as above, plus a yield at the head of every loop (their batch loops have no
# synchronisation inside, so without it a batch would always execute atomically under the scheduler). Only the
# store / writer / reader / batch files: iterators stay as they are (gtreap's iterator feeds items through a helper
# goroutine and a select per item, which would turn every item into several scheduling steps)
(cd "$SCRATCH/bleve/index/upsidedown/store" && "$VERIF/.cache/simrewrite" -loops -only store.go,writer.go,reader.go,batch.go -min-locks 5 boltdb goleveldb gtreap moss metrics) >&2
cd "$SCRATCH/sim"
cat "$SCRATCH/bleve/go.sum" >> go.sum
sort -u go.sum -o go.sum
$GO test -c -tags verif -o "$OUT/bsim.test" . >&2
if [ "${BSIM_RACE:-0}" = 1 ]; then
  CGO_ENABLED=1 $GO test -c -race -tags verif -o "$OUT/bsim-race.test" . >&2
fi
echo "built $OUT/bsim.test" >&2
