#!/bin/bash
# Run once after a fresh restore, offline: builds the rewrite pass and the driver and warms the Go build cache
# by building the simulator against /repo's current tree.
set -euo pipefail
export GOFLAGS=-mod=mod GOPROXY=off GOSUMDB=off GOTOOLCHAIN=local CGO_ENABLED=0
VERIF=$(cd "$(dirname "$0")" && pwd)
mkdir -p "$VERIF/.cache" "$VERIF/evidence" "$VERIF/replays"
(cd "$VERIF/tools/simrewrite" && go1.26.8 build -o "$VERIF/.cache/simrewrite" .)
(cd "$VERIF/tools/drv" && go1.26.8 build -o "$VERIF/.cache/drv" .)
"$VERIF/build.sh" "$VERIF/.cache/warm" >/dev/null
rm -rf "$VERIF/.cache/warm"
echo "setup ok"
